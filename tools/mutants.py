#!/usr/bin/env python3
"""Mutation sanity: apply each seeded change of /verif/mutations/<Cxx>.txt to a scratch copy of
/repo (never to /repo itself), run ./check against the copy, and compare with the expectation.

line format:   name @@ file @@ old text (literal, must occur exactly once) @@ new text @@ expect
expect: an obligation-name substring that must appear in a VIOLATION line, or `OK` for a harmless
edit that must keep exit 0.
usage: tools/mutants.py <Cxx> [name-substring] [--tier quick|thorough] [-j N]
"""
import os, subprocess, sys, shutil, concurrent.futures as cf

VERIF = os.path.dirname(os.path.dirname(os.path.abspath(__file__)))


def run_one(prop, m, tier, skip_copy=False):
    name, file, old, new, expect = m
    d = f"/var/tmp/verif-mut-{prop}-{name}-{os.getpid()}"
    shutil.rmtree(d, ignore_errors=True)
    os.makedirs(d)
    subprocess.run(["rsync", "-a", "--exclude", "/target", "--exclude", "/.git", "--exclude", "/docs",
                    "--exclude", "/clients", "/repo/", d + "/repo/"], check=True)
    p = os.path.join(d, "repo", file)
    src = open(p).read()
    if src.count(old) != 1:
        shutil.rmtree(d, ignore_errors=True)
        return name, expect, "BAD-MUTANT", f"old text occurs {src.count(old)} times", ""
    open(p, "w").write(src.replace(old, new))
    env = dict(os.environ, VERIF_REPO=d + "/repo", VERIF_EVIDENCE_DIR=d + "/evidence", VERIF_REPLAY_DIR=d + "/replay",
               VERIF_JOBS="4")
    r = subprocess.run([os.path.join(VERIF, "check"), prop, "--tier", tier], env=env, capture_output=True, text=True)
    out = r.stdout + r.stderr
    vio = [l for l in out.split("\n") if l.startswith("VIOLATION")]
    und = [l for l in out.split("\n") if l.startswith("UNDECIDED")]
    if expect == "NOALARM":   # semantically equivalent rewrite that may legitimately lose a proof: exit 0 or 2, never a VIOLATION
        verdict = "PASS" if r.returncode in (0, 2) and not vio else "FAIL"
    elif expect == "OK":
        verdict = "PASS" if r.returncode == 0 and not vio else "FAIL"
    else:
        verdict = "PASS" if r.returncode == 1 and any(expect in l for l in vio) else ("WEAK" if r.returncode == 1 else "FAIL")
    shutil.rmtree(d, ignore_errors=True)
    return name, expect, verdict, f"rc={r.returncode}", "\n".join(vio + und)[:600]


def main():
    args = sys.argv[1:]
    tier = "quick"
    jobs = 4
    if "--tier" in args:
        i = args.index("--tier"); tier = args[i + 1]; del args[i:i + 2]
    if "-j" in args:
        i = args.index("-j"); jobs = int(args[i + 1]); del args[i:i + 2]
    prop = args[0]
    filt = args[1] if len(args) > 1 else ""
    muts = []
    for l in open(os.path.join(VERIF, "mutations", prop + ".txt")):
        if l.strip() and not l.startswith("#"):
            parts = [x.strip() for x in l.rstrip("\n").split(" @@ ")]
            if len(parts) != 5:
                print("bad line:", l); continue
            parts[2] = parts[2].replace("\\n", "\n"); parts[3] = parts[3].replace("\\n", "\n")
            if filt in parts[0]:
                muts.append(parts)
    bad = 0
    with cf.ThreadPoolExecutor(max_workers=jobs) as ex:
        for name, expect, verdict, rc, detail in ex.map(lambda m: run_one(prop, m, tier), muts):
            print(f"{verdict:5} {prop} {name:32} expect={expect} {rc}")
            if verdict != "PASS":
                bad += 1
                print("      " + detail.replace("\n", "\n      "))
    print(f"{len(muts)-bad}/{len(muts)} as expected")
    return 1 if bad else 0


if __name__ == "__main__":
    sys.exit(main())
