#!/usr/bin/env python3
"""Confirm a seeded change produced by a sub-agent in its scratch worktree /tmp/seed-<id>:
  1. with patch + demo applied: demo test FAILS
  2. with the patch reverted (demo kept): demo test PASSES
  3. with the patch applied: every BASELINE stable_pass test still passes (full pinned suite)
then store patch.diff, demo, meta.json under /verif/seeded/<name>/.
usage: seed_confirm.py <worktree> <name> <demo test filter>"""
import json, os, subprocess, sys, shutil, xml.etree.ElementTree as ET
wt, name, demo = sys.argv[1], sys.argv[2], sys.argv[3]
tgt = wt.rstrip('/') + '-target'
env = dict(os.environ, CARGO_TARGET_DIR=tgt)

def sh(cmd):
    r = subprocess.run(cmd, shell=True, cwd=wt, env=env, capture_output=True, text=True)
    return r.returncode, r.stdout + r.stderr

def demo_result():
    sh("touch src/lib.rs")   # a hard-linked, pre-warmed target dir can hold a test binary cargo believes is fresh
    rc, out = sh(f"cargo test --lib --offline -j 8 {demo}")
    ok = 'test result: ok' in out and ' 0 passed' not in out.split('test result: ok')[1][:40]
    failed = 'test result: FAILED' in out
    return ('PASS' if ok and not failed else 'FAIL' if failed else 'ERROR'), out[-800:]

res = {}
res['with_patch'], o1 = demo_result()
rc, out = sh("git apply -R patch.diff")
if rc != 0:
    print("cannot revert patch:", out); sys.exit(2)
res['without_patch'], o2 = demo_result()
rc, out = sh("git apply patch.diff")
if rc != 0:
    print("cannot re-apply patch:", out); sys.exit(2)
# full pinned suite with the patch
rc, out = sh("cargo nextest run --workspace --no-fail-fast --tool-config-file pb:/w/lib/nextest.toml --profile pb --test-threads 8 --offline")
j = os.path.join(wt, 'target/nextest/pb/junit.xml')
if not os.path.exists(j):
    j = os.path.join(tgt, 'nextest/pb/junit.xml')
passed = set()
for tc in ET.parse(j).getroot().iter('testcase'):
    if not any(c.tag in ('failure', 'error') for c in tc):
        passed.add(tc.get('classname').replace('-', '_') + '::' + tc.get('name'))
sp = set(json.load(open('/root/.vp/BASELINE.json'))['stable_pass'])
missing = sorted(sp - passed)
# load-dependent flakes (e.g. the ordered_merger metrics race): re-run the missing tests alone, up to 3 times
still = []
for t in missing:
    name = t.split('::', 1)[1]
    ok_once = False
    for _ in range(3):
        rc2, out2 = sh(f"cargo test --lib --offline -j 8 {name} -- --exact")
        if 'test result: ok. 1 passed' in out2:
            ok_once = True
            break
    if not ok_once:
        still.append(t)
res['flaky_rerun_passed'] = [t for t in missing if t not in still]
missing = still
res['stable_pass_broken'] = missing
print(json.dumps(res, indent=1))
ok = res['with_patch'] == 'FAIL' and res['without_patch'] == 'PASS' and not missing
if ok:
    d = f"/verif/seeded/{name}"
    os.makedirs(d, exist_ok=True)
    for f in ('patch.diff', 'demo_test.rs.diff', 'meta.json'):
        if os.path.exists(os.path.join(wt, f)):
            shutil.copy(os.path.join(wt, f), d)
    m = {}
    try:
        m = json.load(open(os.path.join(d, 'meta.json')))
    except Exception:
        pass
    m['confirmed_by_main'] = {"demo_with_patch": res['with_patch'], "demo_without_patch": res['without_patch'],
                              "pinned_suite_stable_pass_broken": 0, "demo_filter": demo,
                              "ran": ["cargo test --lib --offline " + demo + " (with and without patch.diff)",
                                      "cargo nextest run --workspace (pinned profile) with patch.diff applied, compared with BASELINE stable_pass"]}
    json.dump(m, open(os.path.join(d, 'meta.json'), 'w'), indent=1)
    print("CONFIRMED ->", d)
else:
    print("NOT CONFIRMED", o1[-300:], o2[-300:])
sys.exit(0 if ok else 1)
