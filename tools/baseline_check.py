#!/usr/bin/env python3
"""Run the pinned baseline suite in /repo (guard off: nothing of /verif is in /repo) and compare with
BASELINE.json's stable_pass list.  Exit 0 iff every stable_pass test passed."""
import json, os, subprocess, sys, xml.etree.ElementTree as ET
b = json.load(open('/root/.vp/BASELINE.json'))
cmd = "cd /repo && cargo nextest run --workspace --no-fail-fast --tool-config-file pb:/w/lib/nextest.toml --profile pb --test-threads 8 --offline"
r = subprocess.run(cmd, shell=True, capture_output=True, text=True)
j = '/repo/target/nextest/pb/junit.xml'
passed = set()
for tc in ET.parse(j).getroot().iter('testcase'):
    ok = not any(c.tag in ('failure', 'error') for c in tc)
    name = tc.get('classname').replace('-', '_') + '::' + tc.get('name')
    if ok:
        passed.add(name)
sp = set(b['stable_pass'])
missing = sorted(sp - passed)
print(f"stable_pass={len(sp)} passed_now={len(passed)} stable_pass_not_passing={len(missing)}")
for m in missing[:40]:
    print("  NOT PASSING:", m)
sys.exit(1 if missing else 0)
