#!/usr/bin/env python3
"""MANIFEST.setup_cmd: build the Kani dependency cache offline from files on disk only."""
import os, shutil, sys
sys.path.insert(0, os.path.dirname(os.path.abspath(__file__)))
import stage, kani_run

d = f"/var/tmp/verif-setup-{os.getpid()}"
try:
    stage.stage_repo(d)
    kani_run.ensure_cache(d, print)
    print("setup ok")
finally:
    shutil.rmtree(d, ignore_errors=True)
