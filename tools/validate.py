#!/opt/veriftools/pyvenv/bin/python
import json, jsonschema, sys, glob
m = json.load(open('/verif/MANIFEST.json'))
jsonschema.validate(m, json.load(open('/root/.vp/MANIFEST.schema.json')))
es = json.load(open('/root/.vp/EVIDENCE.schema.json'))
bad = 0
for f in sorted(glob.glob('/verif/evidence/*.json')):
    jsonschema.validate(json.load(open(f)), es)
    print('ok', f)
# the committed evidence must be a record for the level the manifest claims (vp check 5 found a stale C04 file)
for c in m['checks']:
    pid = c.get('property_id') or c.get('id')
    cat = c.get('level_claimed', {}).get('category')
    try:
        ev = json.load(open(f'/verif/evidence/{pid}.json'))
    except FileNotFoundError:
        print('MISSING evidence for', pid); bad += 1; continue
    if ev.get('level') != cat or ev.get('exit_code') != 0:
        print(f'STALE evidence {pid}: level {ev.get("level")} vs manifest {cat}, exit {ev.get("exit_code")}'); bad += 1
print('manifest ok' if not bad else f'{bad} evidence problem(s)')
sys.exit(1 if bad else 0)
