#!/usr/bin/env python3
"""Run `cargo kani` on a staged, annotated copy and classify every check it reports."""
import json, os, re, shutil, subprocess, time

VERIF = os.path.dirname(os.path.dirname(os.path.abspath(__file__)))
CACHE = os.path.join(VERIF, ".cache", "kani-target")

KANI_FLAGS = ["-Z", "function-contracts", "-Z", "stubbing", "-Z", "loop-contracts", "--no-assert-contracts",
              "-Z", "unstable-options"]


def ensure_cache(stage_dir, log):
    """dependency cache: a *cache*, rebuilt when missing, never an input"""
    marker = os.path.join(CACHE, ".verif-cache-ok")
    if os.path.exists(marker):
        return
    os.makedirs(CACHE, exist_ok=True)
    env = dict(os.environ, CARGO_NET_OFFLINE="true", CARGO_TARGET_DIR=CACHE)
    t0 = time.time()
    r = subprocess.run(["cargo", "kani", "--lib", "--only-codegen"] + KANI_FLAGS,
                       cwd=stage_dir, env=env, capture_output=True, text=True)
    log(f"[kani] dependency cache built in {time.time()-t0:.0f}s rc={r.returncode}")
    if r.returncode != 0:
        raise RuntimeError("kani dependency cache build failed:\n" + r.stdout[-2000:] + r.stderr[-4000:])
    open(marker, "w").write("ok\n")


def clone_cache(dest):
    """hard-link copy of the dependency cache; crate-own artifacts are unlinked so that
    nothing in the shared cache is ever written through a link"""
    if os.path.exists(dest):
        shutil.rmtree(dest)
    r = subprocess.run(["cp", "-al", CACHE, dest], capture_output=True, text=True)
    if r.returncode != 0:
        shutil.copytree(CACHE, dest)
    for root, dirs, files in os.walk(dest):
        for d in list(dirs):
            if "snel_db" in d or "snel-db" in d:
                shutil.rmtree(os.path.join(root, d), ignore_errors=True)
                dirs.remove(d)
        for f in files:
            if "snel_db" in f or "snel-db" in f:
                try:
                    os.unlink(os.path.join(root, f))
                except OSError:
                    pass
    return dest


def run(stage_dir, target_dir, harness_filters, timeout_s, jobs, log, extra=None, out_json=None):
    """returns dict(rc, stdout, json or None, wall)"""
    env = dict(os.environ, CARGO_NET_OFFLINE="true", CARGO_TARGET_DIR=target_dir)
    out_json = out_json or os.path.join(target_dir, "verif-kani-result.json")
    if os.path.exists(out_json):
        os.unlink(out_json)
    cmd = ["cargo", "kani", "--lib"] + KANI_FLAGS + ["--output-format=terse", "-j", str(jobs),
           "--harness-timeout", f"{int(timeout_s)}s", "--export-json", out_json]
    for h in harness_filters:
        cmd += ["--harness", h]
    if extra:
        cmd += extra
    t0 = time.time()

    def _limit():
        # a runaway CBMC (24 GB was observed for a sort-heavy gate) must not take the machine down: cap the address
        # space of cargo-kani and everything it starts; a harness killed by the cap is reported as "no result"
        import resource
        cap = int(os.environ.get("VERIF_MEM_GB", "24")) * (1 << 30)
        try:
            resource.setrlimit(resource.RLIMIT_AS, (cap, cap))
        except Exception:
            pass
    r = subprocess.run(cmd, cwd=stage_dir, env=env, stdout=subprocess.PIPE,
                       stderr=subprocess.STDOUT, text=True, preexec_fn=_limit)
    wall = time.time() - t0
    js = None
    if os.path.exists(out_json):
        try:
            js = json.load(open(out_json))
        except Exception:
            js = None
    return {"rc": r.returncode, "stdout": r.stdout, "json": js, "wall": wall, "cmd": " ".join(cmd)}


def compile_errors(stdout):
    errs = []
    lines = stdout.split("\n")
    for i, l in enumerate(lines):
        if l.startswith("error"):
            errs.append("\n".join(lines[i:i + 8]))
    return errs


def stubs_applied(stdout):
    """{harness pretty name: [stub lines]}"""
    res = {}
    cur = {}
    for l in stdout.split("\n"):
        m = re.match(r"(?:Thread \d+: )?Checking harness (\S+?)\.\.\.", l)
        t = re.match(r"(Thread \d+): ", l)
        tid = t.group(1) if t else ""
        if m:
            cur[tid] = m.group(1)
            res.setdefault(m.group(1), [])
            continue
        m = re.match(r"(?:Thread \d+: )?\s+- Stub: (.*)$", l)
        if m and tid in cur:
            res[cur[tid]].append(m.group(1).strip())
    return res


def timed_out(stdout):
    """harness names whose CBMC run hit --harness-timeout"""
    res = set()
    cur = {}
    for l in stdout.split("\n"):
        t = re.match(r"(Thread \d+): ", l)
        tid = t.group(1) if t else ""
        m = re.match(r"(?:Thread \d+: )?Checking harness (\S+?)\.\.\.", l)
        if m:
            cur[tid] = m.group(1)
        if re.search(r"timed out|TIMEOUT|CBMC timed out", l, re.I) and tid in cur:
            res.add(cur[tid])
    return res


def classify(js, stdout, units):
    """Per harness: status in {'success','violation','undecided','timeout','missing'} plus
    the obligations discharged / refuted, covers, known findings, solver time."""
    results = {}
    by_name = {}
    oom = set()
    if js:
        for r in js.get("verification_results", {}).get("results", []):
            by_name[r["harness_id"]] = r
    cbmc = {}
    if js:
        for c in js.get("cbmc", []):
            cbmc[c["harness_id"]] = c.get("cbmc_stats") or {}
    stubs = stubs_applied(stdout)
    touts = timed_out(stdout)
    if js:
        for e in js.get("error_details", []):
            if e.get("exit_status") == "timeout":
                touts.add(e["harness_id"])
            elif e.get("exit_status") not in (None, "properties_failed", "success") and e.get("has_errors"):
                oom.add(e["harness_id"] + " [" + str(e.get("exit_status")) + "]")
    for u in units:
        for h in u.harnesses:
            suffix = f"::{u.modname}::{h['name']}"
            full = [k for k in by_name if k.endswith(suffix)]
            entry = {"unit": u.name, "harness": h["name"], "kind": h["kind"], "bound": h.get("bound", ""),
                     "tier": h["tier"], "obligations_ok": [], "obligations_failed": [],
                     "safety_failed": [], "undetermined": [], "unsupported": [], "covers_ok": [],
                     "covers_unsat": [], "known_reproduced": [], "known_gone": [],
                     "checks": 0, "solver_s": None, "wall_s": None, "stubs": [], "gate": h.get("gate", "no")}
            if not full:
                anyname = [k for k in touts if k.endswith(suffix)]
                entry["status"] = "timeout" if anyname else "missing"
                results[h["name"]] = entry
                continue
            r = by_name[full[0]]
            entry["stubs"] = stubs.get(full[0], [])
            entry["wall_s"] = r.get("duration_ms", 0) / 1000.0
            st = cbmc.get(full[0]) or {}
            entry["solver_s"] = st.get("runtime_decision_procedure_s")
            entry["symex_s"] = st.get("runtime_symex_s")
            checks = r.get("checks", [])
            entry["checks"] = len(checks)
            for c in checks:
                desc = c.get("description", "").strip().strip('"')
                status = c.get("status", "")
                cat = c.get("category", "")
                loc = c.get("location", {})
                where = f"{loc.get('file','?')}:{loc.get('line','?')} in {c.get('function','?')}"
                if cat == "cover" or desc.startswith("COVER:") or desc.startswith("KNOWN:"):
                    if desc.startswith("KNOWN:"):
                        (entry["known_reproduced"] if status == "Satisfied" else entry["known_gone"]).append(desc[6:])
                    elif status == "Satisfied":
                        entry["covers_ok"].append(desc)
                    else:
                        entry["covers_unsat"].append(f"{desc} [{status}]")
                    continue
                # Kani function contracts: the ensures clause is reported as an assertion whose description is
                # the closure text, the frame as `assigns` checks; both belong to the harness's contract obligation
                if h.get("contract") and (desc.startswith("|") or cat == "assigns"):
                    name = h["contract"]
                    if status == "Success":
                        if desc.startswith("|") and name not in entry["obligations_ok"]:
                            entry["obligations_ok"].append(name)
                    elif status == "Failure":
                        if name not in entry["obligations_failed"]:
                            entry["obligations_failed"].append(name)
                        entry.setdefault("contract_detail", []).append(f"{cat}: {desc[:200]}")
                    else:
                        entry["undetermined"].append(f"{name} [{status}] {cat}")
                    continue
                if desc.startswith("OBL-UNREACHABLE:"):
                    # the obligation IS unreachability of this program point (e.g. a fallback path)
                    name = desc[len("OBL-UNREACHABLE:"):]
                    if status in ("Unreachable", "Success"):
                        entry["obligations_ok"].append(name)
                    elif status == "Failure":
                        entry["obligations_failed"].append(name)
                    else:
                        entry["undetermined"].append(f"{name} [{status}]")
                    continue
                if desc.startswith("OBL:"):
                    name = desc[4:]
                    if status == "Success":
                        entry["obligations_ok"].append(name)
                    elif status == "Failure":
                        entry["obligations_failed"].append(name)
                    else:
                        entry["undetermined"].append(f"{name} [{status}]")
                    continue
                if status == "Failure" and (desc.startswith("NaN on ") or cat == "NaN"):
                    # CBMC's --nan-check flags any operation that PRODUCES a NaN; that is defined behaviour in
                    # Rust and no property here forbids it: recorded, never a violation
                    entry.setdefault("nan_checks_ignored", []).append(f"{desc} @ {where}")
                    continue
                if status == "Failure" and str(c.get("function", "")).startswith(("std::sys::", "std::os::", "libc::")):
                    # the harness reached the operating system (getrandom for RandomState, clocks, files): CBMC has no
                    # model of it -> undecided, never a property violation
                    entry["unsupported"].append(f"environment call not modelled: {desc[:80]} @ {where}")
                    continue
                if status == "Failure" and "__verif_" in str(c.get("function", "")):
                    # an overflow / panic inside the HARNESS's own arithmetic is a defect of the harness, not of the code
                    # under contract: undecided (exit 2), never reported as a violation of the property
                    entry["unsupported"].append(f"failed check inside harness code (harness defect): {desc[:80]} @ {where}")
                    continue
                if status == "Failure":
                    if cat == "unsupported_construct" or "not currently supported" in desc or cat == "unwind" or "unwinding assertion" in desc:
                        entry["unsupported"].append(f"{desc[:120]} @ {where}")
                    else:
                        entry["safety_failed"].append(f"{desc[:160]} @ {where}")
                elif status not in ("Success", "Satisfied", "Unreachable", "Covered", "Uncovered"):
                    # Undetermined safety checks (consequence of an earlier failure)
                    pass
            if h.get("contract"):
                entry["obligations_ok"] = [o for o in entry["obligations_ok"] if o not in entry["obligations_failed"]]
                if h["contract"] not in entry["obligations_ok"] + entry["obligations_failed"] and not entry["undetermined"]:
                    entry["undetermined"].append(h["contract"] + " [no ensures check was generated]")
            if full[0] in touts or r.get("status") == "Timeout":
                entry["status"] = "timeout"
            elif entry["obligations_failed"] or entry["safety_failed"]:
                entry["status"] = "violation"
            elif entry["unsupported"] or entry["undetermined"] or (r.get("status") != "Success" and not entry.get("nan_checks_ignored")):
                entry["status"] = "undecided"
            elif entry["covers_unsat"]:
                entry["status"] = "undecided"   # vacuity guard
            elif entry["checks"] == 0:
                entry["status"] = "undecided"
            else:
                entry["status"] = "success"
            results[h["name"]] = entry
    return results
