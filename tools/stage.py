#!/usr/bin/env python3
"""Stage a scratch copy of /repo's *current working tree* and annotate it in place.

Nothing here edits a token of executable code except rule R-trace, which is applied
only to the files a unit lists for it (DESIGN §2.3).  Everything else is additive:
  * `#[cfg_attr(kani, ...)]` attribute lines inserted on the line above an anchor line,
  * a `#[cfg(kani)] mod __verif_<unit> { use super::*; ... }` appended to the end of the
    source file that defines the functions under contract.

Unit files live in /verif/contracts/kani/*.rs.  Directives are `//@` comment lines:

  //@unit <name>
  //@property <Cxx>
  //@file <path relative to /repo>            (file the module is appended to)
  //@rtrace <path> [<path> ...]               (files that get rule R-trace)
  //@needs <text that must occur in //@file>  (anchor; lost anchor => exit 2)
  //@insert file=<path> before=<<exact line text, stripped>>
  //| <attribute line>
  //@end
  //@function <path>::<fn name>               (functions under contract, for evidence)
  //@harness name=<fn> kind=complete|bounded [bound="..."] tier=quick|thorough
  //          [timeout=<s>] [stubs=yes] [unwind=n]
  //@obligation <Cxx.unit.fn.clause> : <one-line meaning>

The text after the directive header (everything that is not a `//@`/`//|` line) is the
harness module body.
"""
import os, re, shutil, subprocess, sys, hashlib

REPO = os.environ.get("VERIF_REPO", "/repo")
VERIF = os.path.dirname(os.path.dirname(os.path.abspath(__file__)))


class Undecided(Exception):
    """lost anchor / unsupported construct / build failure: exit 2, never an alarm"""


# --------------------------------------------------------------------------- unit files
class Unit:
    def __init__(self, path):
        self.path = path
        self.name = None
        self.prop = None
        self.file = None
        self.rtrace = []
        self.needs = []
        self.inserts = []      # (file, before_text, [lines])
        self.functions = []
        self.harnesses = []    # dicts
        self.obligations = {}  # name -> meaning
        self.body = ""
        self._parse()

    def _parse(self):
        body = []
        cur_insert = None
        with open(self.path) as f:
            for raw in f:
                line = raw.rstrip("\n")
                s = line.strip()
                if s.startswith("//|"):
                    if cur_insert is None:
                        raise Undecided(f"{self.path}: //| outside //@insert")
                    cur_insert[2].append(s[3:].lstrip(" "))
                    continue
                if not s.startswith("//@"):
                    body.append(line)
                    continue
                d = s[3:].strip()
                key, _, rest = d.partition(" ")
                rest = rest.strip()
                if key == "unit":
                    self.name = rest
                elif key == "property":
                    self.prop = rest
                elif key == "file":
                    self.file = rest
                elif key == "rtrace":
                    self.rtrace += rest.split()
                elif key == "needs":
                    self.needs.append(rest)
                elif key == "insert":
                    m = re.match(r"file=(\S+)\s+before=<<(.*)>>\s*$", rest)
                    m2 = re.match(r"file=(\S+)\s+loop=(\S+)#(\d+)\s*$", rest)
                    m3 = re.match(r"file=(\S+)\s+(fn|struct)=(\S+)\s*$", rest)
                    if m:
                        cur_insert = (m.group(1), m.group(2).strip(), [])
                    elif m2:
                        # structural anchor: the n-th loop (textual order) of fn <name> ([Type::]name)
                        cur_insert = (m2.group(1), ("loop", m2.group(2), int(m2.group(3))), [])
                    elif m3:
                        # structural anchor: the item `fn [Type::]name` / `struct Name`, whatever its signature text
                        cur_insert = (m3.group(1), (m3.group(2), m3.group(3), 0), [])
                    else:
                        raise Undecided(f"{self.path}: bad //@insert: {rest}")
                    self.inserts.append(cur_insert)
                elif key == "end":
                    cur_insert = None
                elif key == "function":
                    self.functions.append(rest)
                elif key == "harness":
                    h = {"kind": "complete", "tier": "quick", "timeout": 300,
                         "stubs": "no", "bound": ""}
                    for m in re.finditer(r'(\w+)=("([^"]*)"|\S+)', rest):
                        h[m.group(1)] = m.group(3) if m.group(3) is not None else m.group(2)
                    h["timeout"] = int(h["timeout"])
                    h["unit"] = self.name
                    self.harnesses.append(h)
                elif key == "obligation":
                    n, _, meaning = rest.partition(":")
                    self.obligations[n.strip()] = meaning.strip()
                else:
                    raise Undecided(f"{self.path}: unknown directive //@{key}")
        self.body = "\n".join(body).strip("\n") + "\n"
        if not (self.name and self.prop and self.file):
            raise Undecided(f"{self.path}: //@unit, //@property and //@file are required")

    @property
    def modname(self):
        return "__verif_" + self.name


def load_units(prop=None):
    d = os.path.join(VERIF, "contracts", "kani")
    units = []
    for fn in sorted(os.listdir(d)):
        if fn.endswith(".rs"):
            u = Unit(os.path.join(d, fn))
            if prop is None or u.prop == prop:
                units.append(u)
    return units


# --------------------------------------------------------------------------- R-trace
_MACROS = ("trace", "debug", "info", "warn", "error")


def _skip_string(src, i):
    """src[i] == '"' (normal string); return index after closing quote"""
    n = len(src)
    i += 1
    while i < n:
        c = src[i]
        if c == "\\":
            i += 2
            continue
        if c == '"':
            return i + 1
        i += 1
    return n


def _skip_raw_string(src, i):
    """src[i] == 'r' and a raw string starts here; return index after it, or None"""
    m = re.compile(r'r(#*)"').match(src, i)
    if not m:
        return None
    close = '"' + m.group(1)
    j = src.find(close, m.end())
    return len(src) if j < 0 else j + len(close)


def _skip_char_or_lifetime(src, i):
    """src[i] == "'"; char literal or lifetime"""
    m = re.compile(r"'(\\.[^']*|[^'\\])'").match(src, i)
    if m:
        return m.end()
    return i + 1


def _match_paren(src, i):
    """src[i] is '(' / '[' / '{' ; return index after the balanced close, skipping
    strings, chars and comments"""
    opener = src[i]
    closer = {"(": ")", "[": "]", "{": "}"}[opener]
    depth = 0
    n = len(src)
    while i < n:
        c = src[i]
        if c == '"':
            i = _skip_string(src, i)
            continue
        if c == "r" and (i == 0 or not (src[i - 1].isalnum() or src[i - 1] == "_")):
            j = _skip_raw_string(src, i)
            if j:
                i = j
                continue
        if c == "'":
            i = _skip_char_or_lifetime(src, i)
            continue
        if src.startswith("//", i):
            j = src.find("\n", i)
            i = n if j < 0 else j
            continue
        if src.startswith("/*", i):
            j = src.find("*/", i)
            i = n if j < 0 else j + 2
            continue
        if c in "([{":
            depth += 1
        elif c in ")]}":
            depth -= 1
            if depth == 0:
                if c != closer:
                    raise Undecided("R-trace: unbalanced delimiters")
                return i + 1
        i += 1
    raise Undecided("R-trace: unterminated macro call")


def _args_have_effects(args):
    """refuse (exit 2) when the dropped argument list is not obviously a read"""
    # strip strings
    out = []
    i = 0
    n = len(args)
    while i < n:
        c = args[i]
        if c == '"':
            j = _skip_string(args, i)
            out.append('""')
            i = j
            continue
        out.append(c)
        i += 1
    t = "".join(out)
    if ".await" in t:
        return ".await"
    # postfix `?` (try operator): preceded by ) ] or identifier char
    if re.search(r"[\)\]\w]\s*\?", t):
        return "postfix ?"
    # assignment operators other than `key = value` fields: compound assignments
    if re.search(r"(\+=|-=|\*=|/=|<<=|>>=|\|=|&=|\^=)", t):
        return "compound assignment"
    if re.search(r"\.(push|push_str|insert|remove|pop|clear|take|next|send|extend|drain|truncate|swap|fetch_add|fetch_sub|store|set)\s*\(", t):
        return "mutating method call"
    return None


def rtrace(src):
    """returns (new_src, count)"""
    out = []
    i = 0
    n = len(src)
    count = 0
    pat = re.compile(r"(?:tracing::)?(trace|debug|info|warn|error|enabled)!\s*([\(\[\{])")
    while i < n:
        c = src[i]
        if c == '"':
            j = _skip_string(src, i)
            out.append(src[i:j]); i = j; continue
        if c == "r" and (i == 0 or not (src[i - 1].isalnum() or src[i - 1] == "_")):
            j = _skip_raw_string(src, i)
            if j:
                out.append(src[i:j]); i = j; continue
        if c == "'":
            j = _skip_char_or_lifetime(src, i)
            out.append(src[i:j]); i = j; continue
        if src.startswith("//", i):
            j = src.find("\n", i)
            j = n if j < 0 else j
            out.append(src[i:j]); i = j; continue
        if src.startswith("/*", i):
            j = src.find("*/", i)
            j = n if j < 0 else j + 2
            out.append(src[i:j]); i = j; continue
        if c in "tdiwe" and (i == 0 or not (src[i - 1].isalnum() or src[i - 1] in "_:")):
            m = pat.match(src, i)
            if m:
                name = m.group(1)
                if name == "enabled" and not src.startswith("tracing::", i):
                    # bare `enabled!` could be anything; leave it
                    out.append(c); i += 1; continue
                open_idx = m.end() - 1
                end = _match_paren(src, open_idx)
                args = src[open_idx + 1:end - 1]
                why = _args_have_effects(args)
                if why:
                    raise Undecided(f"R-trace refuses: dropped log arguments contain {why}: {args[:80]!r}")
                out.append("false" if name == "enabled" else "()")
                count += 1
                i = end
                continue
        out.append(c)
        i += 1
    return "".join(out), count


# --------------------------------------------------------------------------- staging
def stage_repo(dest):
    """rsync the working tree (not HEAD) of /repo into dest"""
    if os.path.exists(dest):
        shutil.rmtree(dest)
    os.makedirs(dest)
    r = subprocess.run(
        ["rsync", "-a", "--delete", "--exclude", "/target", "--exclude", "/.git",
         "--exclude", "/docs", "--exclude", "/clients", REPO + "/", dest + "/"],
        capture_output=True, text=True)
    if r.returncode != 0:
        raise Undecided("rsync failed: " + r.stderr[-400:])
    # offline config for cargo kani (it rejects --offline)
    os.makedirs(os.path.join(dest, ".cargo"), exist_ok=True)
    with open(os.path.join(dest, ".cargo", "config.toml"), "a") as f:
        f.write("\n[net]\noffline = true\n")
    return dest


def apply_units(dest, units, only_harnesses=None):
    """annotate the staged tree; returns report dict"""
    report = {"rtrace": {}, "inserted_attrs": [], "modules": []}
    # 1. R-trace on listed files (once per file)
    rfiles = []
    for u in units:
        for f in u.rtrace:
            if f not in rfiles:
                rfiles.append(f)
    for f in rfiles:
        p = os.path.join(dest, f)
        if not os.path.exists(p):
            raise Undecided(f"lost anchor: file {f} (R-trace) does not exist")
        src = open(p).read()
        new, cnt = rtrace(src)
        open(p, "w").write(new)
        report["rtrace"][f] = cnt
    # 2. attribute insertions
    for u in units:
        for (f, before, lines) in u.inserts:
            p = os.path.join(dest, f)
            if not os.path.exists(p):
                raise Undecided(f"lost anchor: file {f} does not exist (unit {u.name})")
            if isinstance(before, tuple) and before[0] in ("fn", "struct"):
                import verus_run
                text = open(p).read()
                if before[0] == "fn":
                    impl, _, name = before[1].rpartition("::")
                    a, _o, _b = verus_run.find_fn(text, name, impl or None)
                else:
                    ms = [m for m in re.finditer(r"^[ \t]*(?:pub(?:\([a-z]+\))?\s+)?struct\s+" + re.escape(before[1]) + r"\b", text, re.M)]
                    if len(ms) != 1:
                        raise Undecided(f"lost anchor: {len(ms)} definitions of struct {before[1]} in {f}")
                    a = ms[0].start()
                tl = text.split("\n")
                k = text.count("\n", 0, a)
                indent = re.match(r"\s*", tl[k]).group(0)
                while k > 0 and (tl[k - 1].strip().startswith("#[") or tl[k - 1].strip().startswith("///")):
                    k -= 1
                tl[k:k] = [indent + l for l in lines]
                open(p, "w").write("\n".join(tl))
                report["inserted_attrs"].append({"file": f, "before": f"{before[0]} {before[1]}", "lines": lines})
                continue
            if isinstance(before, tuple):
                import verus_run
                text = open(p).read()
                fn = before[1]
                impl, _, name = fn.rpartition("::")
                a, o, b = verus_run.find_fn(text, name, impl or None)
                lps = verus_run.loop_keywords_in(text[o:b])
                if before[2] > len(lps):
                    raise Undecided(f"lost anchor: fn {fn} has {len(lps)} loops, contract given for loop {before[2]}")
                pos = o + lps[before[2] - 1]
                ls = text.rfind("\n", 0, pos) + 1
                if text[ls:pos].strip():
                    raise Undecided(f"loop {before[2]} of fn {fn} does not start its line; cannot attach an attribute")
                indent = text[ls:pos]
                text = text[:ls] + "".join(indent + l + "\n" for l in lines) + text[ls:]
                open(p, "w").write(text)
                report["inserted_attrs"].append({"file": f, "before": f"loop {before[2]} of fn {fn}", "lines": lines})
                continue
            src = open(p).read().split("\n")
            idx = [k for k, l in enumerate(src) if l.strip() == before]
            if len(idx) != 1:
                raise Undecided(f"lost anchor: {len(idx)} lines match <<{before}>> in {f} (unit {u.name})")
            k = idx[0]
            indent = re.match(r"\s*", src[k]).group(0)
            # attributes must precede existing attributes/doc comments of the item
            while k > 0 and (src[k - 1].strip().startswith("#[") or src[k - 1].strip().startswith("///")):
                k -= 1
            src[k:k] = [indent + l for l in lines]
            open(p, "w").write("\n".join(src))
            report["inserted_attrs"].append({"file": f, "before": before, "lines": lines})
    # 3. modules
    for u in units:
        p = os.path.join(dest, u.file)
        if not os.path.exists(p):
            raise Undecided(f"lost anchor: file {u.file} does not exist (unit {u.name})")
        src = open(p).read()
        for need in u.needs:
            # anchors are deliberately loose: a function is identified by its NAME (a changed signature that still
            # type-checks with the harness must reach the verifier; one that does not fails the staged build -> exit 2)
            m = re.search(r"\bfn\s+(\w+)", need)
            if m:
                ok = re.search(r"\bfn\s+" + re.escape(m.group(1)) + r"\b", src) is not None
            else:
                ok = re.sub(r"\s+", " ", need.strip().rstrip("{").strip()) in re.sub(r"\s+", " ", src)
            if not ok:
                raise Undecided(f"lost anchor: <<{need}>> not found in {u.file} (unit {u.name})")
        mod = f"\n\n#[cfg(kani)]\n#[allow(unused, non_snake_case, dead_code)]\npub(crate) mod {u.modname} {{\n    use super::*;\n{u.body}\n}}\n"
        open(p, "w").write(src + mod)
        report["modules"].append({"unit": u.name, "file": u.file})
    return report


def function_lines(units):
    """locate each //@function in /repo's current tree: [(spec, file, line or None)]"""
    res = []
    for u in units:
        for spec in u.functions:
            f, _, fn = spec.rpartition("::")
            line = None
            p = os.path.join(REPO, f)
            if os.path.exists(p):
                pat = re.compile(r"\bfn\s+" + re.escape(fn) + r"\b")
                for k, l in enumerate(open(p), 1):
                    if pat.search(l):
                        line = k
                        break
            res.append({"function": fn, "file": f, "line": line, "unit": u.name})
    return res


if __name__ == "__main__":
    # self-test of R-trace on every file in the repo: must terminate, report counts
    tot = 0
    for root, _, files in os.walk(os.path.join(REPO, "src")):
        for fn in files:
            if fn.endswith(".rs"):
                p = os.path.join(root, fn)
                try:
                    _, c = rtrace(open(p).read())
                    tot += c
                except Undecided as e:
                    print("REFUSE", p, e)
    print("macros neutralised over whole tree:", tot)
