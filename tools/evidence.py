#!/usr/bin/env python3
"""Turn verifier results into exit code, VIOLATION / KNOWN-FINDING lines and evidence/<id>.json"""
import json, os, re, time

VERIF = os.path.dirname(os.path.dirname(os.path.abspath(__file__)))
import replay as replay_mod
import stage


def load_known(prop):
    p = os.path.join(VERIF, "known_findings.json")
    if not os.path.exists(p):
        return {}
    d = json.load(open(p))
    return {e["id"]: e for e in d.get("findings", []) if e.get("property") == prop}


def load_propmeta(prop):
    d = json.load(open(os.path.join(VERIF, "contracts", "properties.json")))
    return d[prop]


def scan_assumptions(kunits, vunits):
    """mechanical scan of the contract files for everything that is assumed, not proved"""
    found = []
    pats = [("kani::assume", r"kani::assume\s*\("), ("kani::stub", r"#\[kani::stub\("),
            ("stub_verified", r"#\[kani::stub_verified\("), ("transmute", r"transmute"),
            ("assume(", r"(?<![\w:])assume\s*\("), ("admit", r"\badmit\s*\("),
            ("external_body", r"external_body"), ("assume_specification", r"assume_specification"),
            ("external_fn_specification", r"external_fn_specification"), ("axiom", r"\baxiom"),
            ("uninterp spec fn", r"\buninterp\s+spec\s+fn"),
            ("unsafe", r"\bunsafe\b")]
    # extraction directives that replace real text by a trusted call or drop it (E6, E7, E8, decisive mode)
    dpats = [("E6 opaque expression", r"^//@opaque\s"), ("E8 opaque block", r"^//@opaqueblock\s"),
             ("E7 format! dropped", r"fmtdrop=yes"), ("decisive loops mode", r"^//@decisive\s")]
    files = [u.path for u in kunits] + [u.path for u in vunits]
    for f in files:
        for k, line in enumerate(open(f), 1):
            s = line.strip()
            if s.startswith("//@"):
                for name, pat in dpats:
                    if re.search(pat, s):
                        found.append(f"{os.path.relpath(f, VERIF)}:{k}: {name}: {s[:160]}")
                        break
                continue
            if s.startswith("//") and not s.startswith("//|"):
                continue
            for name, pat in pats:
                if re.search(pat, line):
                    found.append(f"{os.path.relpath(f, VERIF)}:{k}: {name}: {s[:140]}")
                    break
    return found


def conclude(prop, tier, seed, kunits, kres, kinfo, vunits, vres, vinfo, known, st, tgt, t0, log,
             write=True, jobs=8):
    meta = load_propmeta(prop)
    violations = []      # (obligation, detail, replay_path, tail)
    undecided = []
    unverified = []      # gates that timed out
    known_lines = []
    notes = []
    discharged = []      # complete / unbounded
    bounded = []
    per_obl = []

    all_obls = {}
    for u in kunits:
        all_obls.update(u.obligations)
    for u in vunits:
        all_obls.update(u.obligations)

    # ---- Kani
    for hname, e in kres.items():
        st_ = e["status"]
        tag = f"{e['unit']}::{hname}"
        if st_ == "success" or st_ == "violation":
            for o in e["obligations_ok"]:
                rec = {"obligation": o, "meaning": all_obls.get(o, ""), "backend": "kani/cbmc+cadical",
                       "harness": tag, "kind": e["kind"], "bound": e["bound"],
                       "solver_s": e["solver_s"], "harness_wall_s": e["wall_s"], "cbmc_checks": e["checks"]}
                per_obl.append(rec)
                (discharged if e["kind"] == "complete" else bounded).append(rec)
            for kid in e["known_reproduced"]:
                k = known.get(kid)
                if k and k.get("status") == "known":
                    known_lines.append(f"KNOWN-FINDING: property={prop} {kid}: {k['what_fails']}")
                else:
                    violations.append((kid, f"exception class '{kid}' is reachable but is not listed as a known finding", e, None))
            for kid in e["known_gone"]:
                notes.append(f"known finding {kid} no longer reproduces (due to become 'fixed'; restore the full contract)")
        if st_ == "violation":
            for o in e["obligations_failed"]:
                violations.append((o, all_obls.get(o, ""), e, None))
            if e["safety_failed"] and not e["obligations_failed"]:
                violations.append((f"{prop}.{e['unit']}.{hname}.safety",
                                   "panic / overflow / UB check inside the code under contract: " + "; ".join(e["safety_failed"][:3]), e, None))
        elif st_ == "timeout":
            if e.get("gate") == "yes":
                unverified.append(f"{tag}: gate harness hit its timeout -> the function stays unverified (not counted)")
            else:
                undecided.append(f"{tag}: timeout")
        elif st_ in ("undecided", "missing"):
            why = e["unsupported"] or e["undetermined"] or e["covers_unsat"] or [st_]
            solver_died = (not e["unsupported"] and e["undetermined"]
                           and all("[Error]" in u for u in e["undetermined"] + e["covers_unsat"]))
            # CBMC reports status ERROR for a property when the solver itself gave up (out of memory under the address-space cap):
            # resource exhaustion, like a timeout
            if e.get("gate") == "yes" and (e["checks"] == 0 or solver_died):
                # a gate whose CBMC run died (out of memory / solver crash) is as unverified as one that timed out
                unverified.append(f"{tag}: gate harness produced no result ({'; '.join(why)[:120]}) -> the function stays unverified (not counted)")
            else:
                undecided.append(f"{tag}: {st_}: {'; '.join(why)[:300]}")

    # ---- Verus
    for uname, e in vres.items():
        if e["status"] == "success":
            for o in e["obligations_ok"]:
                rec = {"obligation": o["name"], "meaning": all_obls.get(o["name"], ""), "backend": "verus/z3",
                       "harness": uname + "::" + o["item"], "kind": "complete", "bound": "",
                       "solver_s": o.get("time_s"), "harness_wall_s": e.get("wall_s")}
                per_obl.append(rec)
                discharged.append(rec)
        elif e["status"] == "violation":
            for o in e["obligations_ok"]:
                rec = {"obligation": o["name"], "meaning": all_obls.get(o["name"], ""), "backend": "verus/z3",
                       "harness": uname + "::" + o["item"], "kind": "complete", "bound": "",
                       "solver_s": o.get("time_s"), "harness_wall_s": e.get("wall_s")}
                per_obl.append(rec)
                discharged.append(rec)
            for o in e["obligations_failed"]:
                violations.append((o["name"], o.get("detail", ""), None, e))
        else:
            undecided.append(f"verus {uname}: {e['status']}: {e.get('reason','')[:300]}")

    # findings that no verifier in reach can re-observe (demonstrated natively once, see findings/<id>/): they are listed on
    # every run so that the exit-0 line is never read as "nothing known", and say so explicitly
    for kid, k in known.items():
        if k.get("status") == "known" and k.get("reproduced_by") == "native-demo":
            known_lines.append(f"KNOWN-FINDING: property={prop} {kid}: {k['what_fails']} [recorded from the native demonstration in findings/{kid}; outside the functions under contract, not re-checked by this run]")

    # ---- replay files + lines
    rc = 0
    vcount = 0
    seen = set()
    for (obl, detail, ke, ve) in violations:
        if obl in seen:
            continue
        seen.add(obl)
        vcount += 1
        path, found = replay_mod.make(prop, obl, detail, ke, ve, kunits, st, tgt, kinfo, vinfo, log, jobs)
        suffix = "" if found else " no-failing-input-found"
        log(f"VIOLATION property={prop} replay={path} obligation={obl}{suffix}")
        rc = 1
    for l in known_lines:
        log(l)
    for n in notes:
        log("NOTE: " + n)
    for u in unverified:
        log("UNVERIFIED: " + u)
    if rc == 0 and undecided:
        for u in undecided:
            log(f"UNDECIDED property={prop} reason={u}")
        rc = 2
    if rc == 0 and not discharged and not bounded:
        log(f"UNDECIDED property={prop} reason=zero obligations discharged (vacuity guard)")
        rc = 2

    # ---- evidence
    wall = time.time() - t0
    fn_list = stage.function_lines(kunits) + [f for u in vunits for f in u.function_records()]
    trusted = list(meta.get("trusted_base", []))
    stubs = sorted({f"stub applied: {s}" for e in kres.values() for s in e.get("stubs", [])})
    rt = (kinfo.get("stage_report") or {}).get("rtrace", {})
    rtl = [f"R-trace: {n} tracing macro call(s) neutralised in {f}" for f, n in rt.items()]
    cov = {
        "obligations": len({r["obligation"] for r in discharged}) + vcount,
        "discharged": len({r["obligation"] for r in discharged}),
        "checker_cmd": "; ".join(x for x in [kinfo.get("cmd"), vinfo.get("cmd")] if x) or "none",
        "trusted_base": trusted + stubs + rtl,
        "explanation": meta.get("explanation", ""),
        "functions_under_contract": fn_list,
        "obligations_discharged": [r for r in per_obl if r["kind"] == "complete"],
        "bounded_not_counted": [r for r in per_obl if r["kind"] != "complete"],
        "unverified_gates": unverified,
        "undecided": undecided,
        "known_findings_printed": known_lines,
        "notes": notes,
        "cbmc_checks_total": sum(e["checks"] for e in kres.values()),
        "covers_satisfied": sum(len(e["covers_ok"]) for e in kres.values()),
        "kani": {"harnesses": {h: {k: e[k] for k in ("status", "kind", "bound", "checks", "solver_s", "wall_s", "covers_ok", "stubs")} for h, e in kres.items()},
                 "wall_s": kinfo.get("wall"), "tools": kinfo.get("tools"), "stage": kinfo.get("stage_report")},
        "verus": vinfo,
        "samples": [r["obligation"] + " — " + r["meaning"] for r in per_obl][:12] or ["none"],
        "assumption_scan": scan_assumptions(kunits, vunits),
    }
    ev = {
        "property_id": prop, "tier": tier, "seed": seed, "level": meta["category"],
        "coverage": cov,
        "assumptions": meta.get("assumptions", []) + ["see coverage.trusted_base and coverage.assumption_scan"],
        "wall_s": round(wall, 2), "violations": vcount, "exit_code": rc,
    }
    if meta["category"] != "proof":
        # bounded-deductive properties: exploration-style keys are not applicable; explanation is.
        pass
    if write:
        edir = os.environ.get("VERIF_EVIDENCE_DIR") or os.path.join(VERIF, "evidence")
        os.makedirs(edir, exist_ok=True)
        p = os.path.join(edir, f"{prop}.json")
        json.dump(ev, open(p + ".tmp", "w"), indent=1, default=str)
        os.replace(p + ".tmp", p)
    nb = len({r['obligation'] for r in bounded})
    log(f"[{prop}] tier={tier} obligations discharged={cov['discharged']} bounded(not counted)={nb} "
        f"violations={vcount} undecided={len(undecided)} unverified-gates={len(unverified)} wall={wall:.0f}s exit={rc}")
    return rc
