#!/usr/bin/env python3
"""Engine V: mechanical extraction of real functions from /repo + contracts from
/verif/contracts/verus/*.spec -> one Verus file per unit -> `verus f.rs --output-json`.

Spec file directives (`//@`), continuation lines `//|`:

  //@unit <name>            //@property <Cxx>        //@tier quick|thorough
  //@extract file=<path> struct=<Name> keep=<f1,f2,...>
  //@extract file=<path> const=<NAME>
  //@extract file=<path> fn=<name>                       (free function)
  //@extract file=<path> impl=<Type> fn=<name>           (inherent method)
  //@contract fn=<[Type::]name> [ret=<binder>]           (requires/ensures text follows in //| lines;
  //|   requires ...,                                     a trailing `// OBL:<name>` on a clause line names
  //|   ensures  ...,   // OBL:Cxx.unit.fn.clause         the obligation decided by that clause)
  //@loop fn=<[Type::]name> n=<ordinal from 1>           (invariant/decreases text in //| lines)
  //@proof fn=<[Type::]name> after=<<statement text>>    (proof block in //| lines)
  //@obligation <name> item=<[Type::]fn> : <meaning>     (obligation decided by the whole item)
  //@end

Everything else in the spec file is Verus text (spec fns, lemmas) that is placed after the
extracted items inside `verus! { }`.

Extraction rules (DESIGN §2.3): E1 items selected by path and copied as source text;
E2 R-trace; E3 attribute lines and doc comments dropped, items and fields made `pub`;
E4 struct reduced to the `keep=` fields; E5 contracts / invariants / proof blocks spliced.
No statement of an extracted body is reordered, rewritten or removed -- a unified diff
"repo text vs verified text" is written next to the evidence on every run.
"""
import difflib, json, os, re, subprocess, time

import stage
from stage import Undecided, _match_paren, _skip_string, _skip_raw_string, _skip_char_or_lifetime

VERIF = os.path.dirname(os.path.dirname(os.path.abspath(__file__)))
REPO = stage.REPO


class VUnit:
    def __init__(self, path):
        self.path = path
        self.name = self.prop = None
        self.tier = "quick"
        self.extracts = []
        self.contracts = {}   # fn -> {"ret":..., "lines":[...]}
        self.loops = {}       # (fn, n) -> [lines]
        self.proofs = []      # (fn, after, [lines])   after = stmt | BODY_START | LOOP_START#n | LOOP_END#n | BLOCK:<stmt opening a block>
        self.decisive_loops = False
        self.features = []       # crate features the generated file needs (e.g. allocator_api for an assume_specification on Vec<T, A>)
        self.opaque_blocks = []  # (fn, opener line, call): E8
        self.loop_iter = {}   # (fn, n) -> ghost iterator name for a `for` loop
        self.opaque = []      # (fn, expr, call): E6
        self.sigchecks = []   # (file, impl, fn, sig): the real signature of a function that is only DECLARED here must still read like this
        self.obligations = {}  # name -> meaning
        self.obl_item = {}    # name -> item (whole-item obligations)
        self.body = ""
        self._parse()

    def _parse(self):
        body, cur = [], None
        for raw in open(self.path):
            line = raw.rstrip("\n")
            s = line.strip()
            if s.startswith("//|"):
                if cur is None:
                    raise Undecided(f"{self.path}: //| outside a block")
                cur.append(line.split("//|", 1)[1])
                continue
            if not s.startswith("//@"):
                body.append(line)
                continue
            d = s[3:].strip()
            key, _, rest = d.partition(" ")
            rest = rest.strip()
            kv = {}
            for m in re.finditer(r"(\w+)=(<<(.*?)>>|\S+)", rest):
                kv[m.group(1)] = m.group(3) if m.group(3) is not None else m.group(2)
            cur = None
            if key == "unit":
                self.name = rest
            elif key == "property":
                self.prop = rest
            elif key == "tier":
                self.tier = rest
            elif key == "extract":
                self.extracts.append(kv)
            elif key == "contract":
                cur = []
                self.contracts[kv["fn"]] = {"ret": kv.get("ret"), "lines": cur}
            elif key == "loop":
                cur = []
                self.loops[(kv["fn"], int(kv["n"]))] = cur
                if kv.get("iter"):
                    self.loop_iter[(kv["fn"], int(kv["n"]))] = kv["iter"]
            elif key == "proof":
                cur = []
                after = ("BLOCK:" + kv["afterblock"].strip()) if "afterblock" in kv else \
                        ("BLOCKEND:" + kv["endofblock"].strip()) if "endofblock" in kv else \
                        (kv["after"].strip() + ("##" + kv["occ"] if "occ" in kv else ""))
                self.proofs.append((kv["fn"], after, cur))
            elif key == "decisive":
                # `//@decisive loops`: in this unit the loop body is checked against an explicit step function by a lemma call, so a
                # failing pre/postcondition inside the function with the loop is a refutation of the step, not a lost invariant guess
                self.decisive_loops = (rest == "loops")
            elif key == "feature":
                self.features.append(rest)
            elif key == "opaqueblock":
                self.opaque_blocks.append((kv["fn"], kv["opener"].strip(), kv["call"]))
            elif key == "opaque":
                self.opaque.append((kv["fn"], kv["expr"], kv["call"], kv.get("all") == "yes"))
            elif key == "sigcheck":
                self.sigchecks.append((kv["file"], kv.get("impl"), kv["fn"], kv["sig"]))
            elif key == "obligation":
                head, _, meaning = rest.partition(":")
                parts = head.split()
                self.obligations[parts[0]] = meaning.strip()
                for p in parts[1:]:
                    if p.startswith("item="):
                        self.obl_item[parts[0]] = p[5:]
            elif key == "end":
                cur = None
            else:
                raise Undecided(f"{self.path}: unknown directive //@{key}")
        self.body = "\n".join(body).strip("\n") + "\n"
        # clause-level obligations named in contract / loop lines
        for c in self.contracts.values():
            for l in c["lines"]:
                m = re.search(r"//\s*OBL:(\S+)", l)
                if m and m.group(1) not in self.obligations:
                    self.obligations[m.group(1)] = l.split("//")[0].strip().rstrip(",")
        if not (self.name and self.prop):
            raise Undecided(f"{self.path}: //@unit and //@property required")

    def function_records(self):
        recs = []
        for e in self.extracts:
            if "fn" in e:
                f = e["file"]
                line = None
                p = os.path.join(REPO, f)
                if os.path.exists(p):
                    try:
                        src = open(p).read()
                        a, _, _ = find_fn(src, e["fn"], e.get("impl"), e.get("trait"))
                        line = src.count("\n", 0, a) + 1
                    except Undecided:
                        pass
                recs.append({"function": (e.get("impl") + "::" if e.get("impl") else "") + e["fn"],
                             "file": f, "line": line, "unit": self.name, "backend": "verus"})
        return recs


def load_units(prop=None):
    d = os.path.join(VERIF, "contracts", "verus")
    res = []
    if not os.path.isdir(d):
        return res
    for fn in sorted(os.listdir(d)):
        if fn.endswith(".spec"):
            u = VUnit(os.path.join(d, fn))
            if prop is None or u.prop == prop:
                res.append(u)
    return res


# ------------------------------------------------------------------ source navigation
def _code_positions(src):
    """yield (i, ch) for characters that are code (not in strings / comments)"""
    i, n = 0, len(src)
    while i < n:
        c = src[i]
        if c == '"':
            i = _skip_string(src, i); continue
        if c == "r" and (i == 0 or not (src[i - 1].isalnum() or src[i - 1] == "_")):
            j = _skip_raw_string(src, i)
            if j:
                i = j; continue
        if c == "'":
            i = _skip_char_or_lifetime(src, i); continue
        if src.startswith("//", i):
            j = src.find("\n", i); i = n if j < 0 else j; continue
        if src.startswith("/*", i):
            j = src.find("*/", i); i = n if j < 0 else j + 2; continue
        yield i, c
        i += 1


def _code_mask(src):
    mask = bytearray(len(src))
    for i, _ in _code_positions(src):
        mask[i] = 1
    return mask


def find_trait_impl_block(src, trait, ty):
    mask = _code_mask(src)
    res = []
    for m in re.finditer(r"\bimpl(?:<[^>{]*>)?\s+" + re.escape(trait) + r"(?:<[^{]*?>)?\s+for\s+" + re.escape(ty) + r"(?:<[^>{]*>)?\s*(?:where[^{]*)?\{", src):
        if mask[m.start()]:
            o = m.end() - 1
            res.append((o, _match_paren(src, o)))
    if not res:
        raise Undecided(f"lost anchor: impl {trait} for {ty} not found")
    return res


def find_enum(src, name):
    mask = _code_mask(src)
    for m in re.finditer(r"\benum\s+" + re.escape(name) + r"\b[^{;(]*\{", src):
        if mask[m.start()]:
            o = m.end() - 1
            return m.start(), o, _match_paren(src, o)
    raise Undecided(f"lost anchor: enum {name} not found")


def find_impl_block(src, ty):
    """(start, end) of the body `{...}` of the first inherent `impl <ty>` block containing nothing
    trait-ish; searched at top level"""
    mask = _code_mask(src)
    res = []
    for m in re.finditer(r"\bimpl(?:<[^>{]*>)?\s+" + re.escape(ty) + r"(?:<[^>{]*>)?\s*(?:where[^{]*)?\{", src):
        if not mask[m.start()]:
            continue
        open_idx = m.end() - 1
        end = _match_paren(src, open_idx)
        res.append((open_idx, end))
    if not res:
        raise Undecided(f"lost anchor: impl {ty} not found")
    return res


def find_fn(src, name, impl=None, trait=None):
    """returns (item_start, body_open_idx, body_end) for fn `name` (inside `impl <impl>` if given)"""
    mask = _code_mask(src)
    if impl and trait:
        ranges = find_trait_impl_block(src, trait, impl)
    else:
        ranges = find_impl_block(src, impl) if impl else [(0, len(src))]
    hits = []
    for (a, b) in ranges:
        for m in re.finditer(r"\bfn\s+" + re.escape(name) + r"\b", src[a:b]):
            pos = a + m.start()
            if not mask[pos]:
                continue
            if not impl:
                # free function: must be at brace depth 0
                depth = 0
                for i, c in _code_positions(src[:pos]):
                    if c == "{":
                        depth += 1
                    elif c == "}":
                        depth -= 1
                if depth != 0:
                    continue
            hits.append(pos)
    if len(hits) != 1:
        raise Undecided(f"lost anchor: {len(hits)} definitions of fn {name}" + (f" in impl {impl}" if impl else ""))
    pos = hits[0]
    # item start: beginning of the line (covers `pub`, `pub(crate)`, `const`, `async` prefixes)
    ls = src.rfind("\n", 0, pos) + 1
    # body open: first `{` at paren depth 0 after the signature
    depth = 0
    i = pos
    body_open = None
    for j, c in _code_positions(src[pos:]):
        k = pos + j
        if c in "([":
            depth += 1
        elif c in ")]":
            depth -= 1
        elif c == "{" and depth == 0:
            body_open = k
            break
        elif c == ";" and depth == 0:
            break
    if body_open is None:
        raise Undecided(f"fn {name}: no body found")
    end = _match_paren(src, body_open)
    return ls, body_open, end


def find_struct(src, name):
    mask = _code_mask(src)
    for m in re.finditer(r"\bstruct\s+" + re.escape(name) + r"\b[^{;(]*\{", src):
        if mask[m.start()]:
            open_idx = m.end() - 1
            return m.start(), open_idx, _match_paren(src, open_idx)
    raise Undecided(f"lost anchor: struct {name} not found")


def find_const(src, name):
    mask = _code_mask(src)
    for m in re.finditer(r"^[ \t]*(?:pub(?:\([a-z]+\))?\s+)?const\s+" + re.escape(name) + r"\s*:[^;]*;", src, re.M):
        if mask[m.start() + len(m.group(0)) - 1]:
            return m.group(0).strip()
    raise Undecided(f"lost anchor: const {name} not found")


def loop_keywords_in(body):
    """positions of the `while` / `loop` / `for` keyword of each loop, in textual order"""
    mask = _code_mask(body)
    res = []
    for m in re.finditer(r"\b(while|loop|for)\b", body):
        if mask[m.start()]:
            # `for` in `impl Trait for` / HRTB does not occur inside fn bodies we extract
            res.append(m.start())
    return res


def loops_in(body):
    """positions of the `{` opening each loop body, in textual order"""
    mask = _code_mask(body)
    res = []
    for m in re.finditer(r"\b(while|loop|for)\b", body):
        if not mask[m.start()]:
            continue
        depth = 0
        for j, c in _code_positions(body[m.end():]):
            k = m.end() + j
            if c in "([":
                depth += 1
            elif c in ")]":
                depth -= 1
            elif c == "{" and depth == 0:
                res.append(k)
                break
    return res


# ------------------------------------------------------------------ composition
def _strip_attrs_docs(text):
    out = []
    for l in text.split("\n"):
        s = l.strip()
        if s.startswith("#[") or s.startswith("///"):
            continue
        out.append(l)
    return "\n".join(out)


def _make_pub(sig_line_text):
    s = sig_line_text.lstrip()
    ind = sig_line_text[:len(sig_line_text) - len(s)]
    s = re.sub(r"^pub\([a-z]+\)\s+", "", s)
    if not s.startswith("pub "):
        s = "pub " + s
    return ind + s


def compose(unit, outdir):
    """returns (verus_text, linemap, diffs, rtrace_count)"""
    structs, consts, impls, frees = [], [], {}, []
    impl_generics = {}
    diffs = []
    rcount = 0
    srcs = {}
    # `//@sigcheck`: a function that the spec file only declares (external, trusted contract) must still have the signature the
    # declaration was written against -- compared as text up to white space; a changed parameter or return type is a lost anchor
    for (f, impl, name, sig) in unit.sigchecks:
        p = os.path.join(REPO, f)
        if not os.path.exists(p):
            raise Undecided(f"lost anchor: {f} does not exist")
        src0 = srcs.setdefault(f, open(p).read())
        a0, o0, _b0 = find_fn(src0, name, impl, None)
        real = re.sub(r"\s+", "", src0[a0:o0])
        real = re.sub(r"^pub(\([a-z]+\))?", "", real)
        want = re.sub(r"\s+", "", sig)
        if real != want:
            raise Undecided(f"lost anchor: signature of {(impl + '::') if impl else ''}{name} changed: <<{' '.join(src0[a0:o0].split())}>> (declared against <<{sig}>>)")
    for e in unit.extracts:
        f = e["file"]
        p = os.path.join(REPO, f)
        if not os.path.exists(p):
            raise Undecided(f"lost anchor: {f} does not exist")
        src = srcs.setdefault(f, open(p).read())
        if "struct" in e and "fn" not in e:
            if re.search(r"\bstruct\s+" + re.escape(e["struct"]) + r"\s*;", src):
                structs.append(f"pub struct {e['struct']};")
                continue
            a, o, b = find_struct(src, e["struct"])
            keep = e.get("keep", "").split(",")
            fields_txt = src[o + 1:b - 1]
            # E4b: `retype=<from>=><to>[;<from>=><to>]` rewrites a type PATH in the kept field declarations (used to point
            # std::collections::{HashMap,HashSet} at the abstract map/set declared in the spec file); no code is touched
            for rule in filter(None, e.get("retype", "").split(";")):
                frm, _, to = rule.partition("=>")
                fields_txt = fields_txt.replace(frm, to)
            kept = []
            for fl in fields_txt.split("\n"):
                m = re.match(r"\s*(?:pub(?:\([a-z]+\))?\s+)?(\w+)\s*:\s*(.+?),?\s*$", fl)
                if m and m.group(1) in keep:
                    kept.append(f"    pub {m.group(1)}: {m.group(2).rstrip(',')},")
            missing = [k for k in keep if k and not any(re.match(rf"\s*pub {k}:", x) for x in kept)]
            if missing:
                raise Undecided(f"lost anchor: struct {e['struct']} has no field(s) {missing}")
            # `generics=<'a>`: lifetime / type parameters of the struct, copied as given (and used for its impl block)
            gen = e.get("generics", "")
            if gen:
                impl_generics[e["struct"]] = gen
            structs.append(f"pub struct {e['struct']}{gen} {{\n" + "\n".join(kept) + "\n}")
            continue
        if "enum" in e:
            a, o, b = find_enum(src, e["enum"])
            body = _strip_attrs_docs(src[o:b])
            structs.append(f"pub enum {e['enum']} " + body)
            continue
        if "const" in e:
            c = find_const(src, e["const"])
            c = re.sub(r"^pub(?:\([a-z]+\))?\s+", "", c)
            consts.append("pub " + c)
            continue
        name, impl = e["fn"], e.get("impl")
        a, o, b = find_fn(src, name, impl, e.get("trait"))
        orig = src[a:b]
        sig = src[a:o].rstrip()
        body = src[o:b]
        key = (impl + "::" if impl else "") + name
        # E2
        body2, cnt = stage.rtrace(body)
        rcount += cnt
        # E4b on a function: `retype=<from>=><to>[;..]` rewrites a type PATH in the signature and body (e.g. serde_json::Value => Value,
        # pointing at the abstract declaration in the spec file)
        for rule in filter(None, e.get("retype", "").split(";")):
            frm, _, to = rule.partition("=>")
            sig = sig.replace(frm, to)
            body2 = body2.replace(frm, to)
        # E7: `fmtdrop=yes` replaces every `format!( .. )` (balanced) by `__fmt()`, an external function returning an arbitrary String:
        # the text of error messages is dropped, the control flow around them is kept
        if e.get("fmtdrop") == "yes":
            while True:
                mm = None
                mask2 = _code_mask(body2)
                for cand in re.finditer(r"\bformat!\s*\(", body2):
                    if mask2[cand.start()]:
                        mm = cand
                        break
                if not mm:
                    break
                endp = _match_paren(body2, mm.end() - 1)
                body2 = body2[:mm.start()] + "__fmt()" + body2[endp:]
        # E8: the body of the block opened by the given line (a match arm, typically) is replaced by one call to an external function
        # declared with a trusted specification in the spec file; whatever is inside that block is dropped, the rest of the function is kept
        for (fn_, opener, call) in unit.opaque_blocks:
            if fn_ != key:
                continue
            bl_ = body2.split("\n")
            idx_ = [i for i, l in enumerate(bl_) if l.strip() == opener]
            if len(idx_) != 1 or not opener.endswith("{"):
                raise Undecided(f"lost anchor: {len(idx_)} block openers <<{opener}>> in fn {key}")
            off_ = sum(len(l) + 1 for l in bl_[:idx_[0]]) + len(bl_[idx_[0]].rstrip()) - 1
            end_ = _match_paren(body2, off_)
            body2 = body2[:off_ + 1] + "\n" + call + "\n" + body2[end_ - 1:]
        # E6: an expression Verus has no syntax for (iterator adapters, closures) is replaced, verbatim-matched up to white space,
        # by a call to an external function declared (with a trusted specification) in the spec file. What is dropped is listed.
        for (fn_, expr, call, all_) in unit.opaque:
            if fn_ != key:
                continue
            pat = r"\s*".join(re.escape(ch) for ch in re.sub(r"\s+", "", expr))
            ms = list(re.finditer(pat, body2))
            # `all=yes`: every occurrence (at least one) of the expression is replaced by the same call
            if (len(ms) != 1 and not all_) or not ms:
                raise Undecided(f"lost anchor: {len(ms)} occurrences of the opaque expression <<{expr[:60]}>> in fn {key}")
            for m_ in reversed(ms):
                body2 = body2[:m_.start()] + call + body2[m_.end():]
        # E5 loops (insert from last to first so positions stay valid)
        lps = loops_in(body2)
        kws = loop_keywords_in(body2)
        for (fn_, n), lines in sorted(unit.loops.items(), key=lambda x: -x[0][1]):
            if fn_ != key:
                continue
            if n > len(lps):
                raise Undecided(f"lost anchor: fn {key} has {len(lps)} loops, invariant given for loop {n}")
            k = lps[n - 1]
            body2 = body2[:k] + "\n" + "\n".join(lines) + "\n" + body2[k:]
            it = unit.loop_iter.get((fn_, n))
            if it:   # E5b: name the ghost iterator of a `for` loop (`for x in <it>: <expr>`), ghost-only syntax
                hdr = body2[kws[n - 1]:k]
                m = re.match(r"for\s+(.+?)\s+in\s+", hdr, re.S)
                if not m:
                    raise Undecided(f"lost anchor: loop {n} of fn {key} is not a `for .. in ..` loop")
                body2 = body2[:kws[n - 1] + m.end()] + it + ": " + body2[kws[n - 1] + m.end():]
        # E5 proof blocks
        for (fn_, after, lines) in unit.proofs:
            if fn_ != key:
                continue
            bl = body2.split("\n")
            if after == "BODY_START":
                bl[1:1] = lines
                body2 = "\n".join(bl)
                continue
            m = re.match(r"LOOP_(START|END|AFTER)#(\d+)$", after)
            if m:
                lp = loops_in(body2)
                n = int(m.group(2))
                if n > len(lp):
                    raise Undecided(f"lost anchor: fn {key} has {len(lp)} loops, proof block given for loop {n}")
                o_ = lp[n - 1]
                at = o_ + 1 if m.group(1) == "START" else _match_paren(body2, o_) - (1 if m.group(1) == "END" else 0)
                body2 = body2[:at] + "\n" + "\n".join(lines) + "\n" + body2[at:]
                continue
            if after.startswith("BLOCK:") or after.startswith("BLOCKEND:"):
                inside = after.startswith("BLOCKEND:")
                stmt = after.split(":", 1)[1]
                idx = [i for i, l in enumerate(bl) if l.strip() == stmt]
                if len(idx) != 1 or not stmt.endswith("{"):
                    raise Undecided(f"lost anchor: {len(idx)} block openers <<{stmt}>> in fn {key}")
                off = sum(len(l) + 1 for l in bl[:idx[0]]) + len(bl[idx[0]].rstrip()) - 1
                end_ = _match_paren(body2, off) - (1 if inside else 0)
                body2 = body2[:end_] + "\n" + "\n".join(lines) + "\n" + body2[end_:]
                continue
            occ = None
            mo = re.match(r"(.*)##(\d+)$", after, re.S)   # `after=<<stmt>>` with `occ=k` (k-th textual occurrence)
            if mo:
                after, occ = mo.group(1), int(mo.group(2))
            idx = [i for i, l in enumerate(bl) if l.strip() == after]
            if occ is not None:
                if len(idx) < occ:
                    raise Undecided(f"lost anchor: {len(idx)} statements <<{after}>> in fn {key}, occurrence {occ} wanted")
                idx = [idx[occ - 1]]
            if len(idx) != 1:
                raise Undecided(f"lost anchor: {len(idx)} statements <<{after}>> in fn {key}")
            bl[idx[0] + 1:idx[0] + 1] = lines
            body2 = "\n".join(bl)
        # E3 + contract
        sig2 = _make_pub(_strip_attrs_docs(sig))
        c = unit.contracts.get(key)
        if c:
            if c.get("ret"):
                m = re.search(r"->\s*(.+)$", sig2, re.S)
                if not m:
                    raise Undecided(f"fn {key}: ret= given but no return type")
                sig2 = sig2[:m.start()] + f"-> ({c['ret']}: {m.group(1).strip()})"
            sig2 = sig2 + "\n" + "\n".join(c["lines"])
        text = sig2 + "\n" + body2
        (impls.setdefault(impl, []) if impl else frees).append((key, text))
        d = difflib.unified_diff(orig.split("\n"), text.split("\n"), f"repo:{f}::{key}", f"verified::{key}", lineterm="", n=1)
        diffs.append("\n".join(d))
    parts = ["// GENERATED on every run by tools/verus_run.py from /repo and " + os.path.relpath(unit.path, VERIF),
             *[f"#![feature({ft})]" for ft in unit.features],
             "use vstd::prelude::*;", "verus! {", ""]
    parts += consts + [""] + structs + [""]
    for impl, items in impls.items():
        g_ = impl_generics.get(impl, "")
        parts.append(f"impl{g_} {impl}{g_} {{")
        for _, t in items:
            parts.append(t)
            parts.append("")
        parts.append("}")
        parts.append("")
    for _, t in frees:
        parts.append(t)
        parts.append("")
    parts.append("// ---- spec functions and lemmas from the contract file ----")
    parts.append(unit.body)
    parts.append("} // verus!")
    parts.append("fn main() {}")
    text = "\n".join(parts) + "\n"
    return text, diffs, rcount


def item_ranges(text):
    """[(item_name, first_line, last_line)] for every fn in the composed file (1-based lines)"""
    res = []
    mask = _code_mask(text)
    # impl blocks
    impl_ranges = []
    for m in re.finditer(r"^impl(?:<[^>{]*>)?\s+(\w+)[^{]*\{", text, re.M):
        if mask[m.start()]:
            o = m.end() - 1
            impl_ranges.append((m.group(1), o, _match_paren(text, o)))
    for m in re.finditer(r"\bfn\s+(\w+)\b", text):
        if not mask[m.start()]:
            continue
        pos = m.start()
        owner = None
        for (ty, a, b) in impl_ranges:
            if a < pos < b:
                owner = ty
        # find body
        depth = 0
        body_open = None
        for j, c in _code_positions(text[pos:]):
            k = pos + j
            if c in "([":
                depth += 1
            elif c in ")]":
                depth -= 1
            elif c == "{" and depth == 0:
                body_open = k
                break
            elif c == ";" and depth == 0:
                break
        if body_open is None:
            continue
        end = _match_paren(text, body_open)
        l1 = text.count("\n", 0, text.rfind("\n", 0, pos) + 1) + 1
        l2 = text.count("\n", 0, end) + 1
        res.append(((owner + "::" if owner else "") + m.group(1), l1, l2))
    return res


def add_canaries(text):
    """insert `assert(false);` as the first statement of every non-spec fn body: with satisfiable
    preconditions each such fn must then FAIL; one that still verifies has contradictory requires."""
    mask = _code_mask(text)
    inserts = []
    names = []
    impl_ranges = []
    for m in re.finditer(r"^impl(?:<[^>{]*>)?\s+(\w+)[^{]*\{", text, re.M):
        if mask[m.start()]:
            o = m.end() - 1
            impl_ranges.append((m.group(1), o, _match_paren(text, o)))
    for m in re.finditer(r"\bfn\s+(\w+)\b", text):
        if not mask[m.start()]:
            continue
        pos = m.start()
        ls = text.rfind("\n", 0, pos) + 1
        if re.search(r"\bspec\b", text[ls:pos]):
            continue
        prev = text[max(0, text.rfind("\n", 0, max(0, ls - 1))):ls]
        if "external_body" in prev:
            continue  # trusted axiom: body not checked by Verus, listed in the assumption scan
        depth = 0
        body_open = None
        for j, c in _code_positions(text[pos:]):
            k = pos + j
            if c in "([":
                depth += 1
            elif c in ")]":
                depth -= 1
            elif c == "{" and depth == 0:
                body_open = k
                break
            elif c == ";" and depth == 0:
                break
        if body_open is None:
            continue
        owner = None
        for (ty, a_, b_) in impl_ranges:
            if a_ < pos < b_:
                owner = ty
        if pos > text.find("} // verus!") >= 0:
            continue
        inserts.append(body_open + 1)
        names.append((owner + "::" if owner else "") + m.group(1))
    out = text
    for k in sorted(inserts, reverse=True):
        out = out[:k] + " assert(false); /* CANARY */ " + out[k:]
    return out, names


def run_verus(path, timeout=600):
    t0 = time.time()
    try:
        r = subprocess.run(["verus", path, "--output-json", "--time-expanded", "--multiple-errors", "20", "-V", "spinoff-all"],
                           capture_output=True, text=True, timeout=timeout, cwd=os.path.dirname(path))
    except subprocess.TimeoutExpired:
        return None, "", "timeout", time.time() - t0
    js = None
    try:
        js = json.loads(r.stdout)
    except Exception:
        k = r.stdout.find("{")
        try:
            js = json.loads(r.stdout[k:]) if k >= 0 else None
        except Exception:
            js = None
    return js, r.stdout, r.stderr, time.time() - t0


def breakdown(js):
    res = {}
    try:
        for mod in js["times-ms"]["smt"]["smt-run-module-times"]:
            for f in mod.get("function-breakdown", []):
                name = f["function"].split("::", 1)[1] if "::" in f["function"] else f["function"]
                res[name] = {"success": f["success"], "time_s": f.get("time-micros", 0) / 1e6, "rlimit": f.get("rlimit")}
    except Exception:
        pass
    return res


def error_lines(stderr, fname):
    """[(line, message)] for errors pointing into the generated file"""
    res = []
    cur = None
    for l in stderr.split("\n"):
        m = re.match(r"(error|warning)(\[\w+\])?: (.*)$", l)
        if m:
            cur = (m.group(1), m.group(3))
            continue
        m = re.match(r"\s*--> (.+?):(\d+):(\d+)", l)
        if m and cur and cur[0] == "error":
            res.append((int(m.group(2)), cur[1]))
            cur = None
    return res


def run_units(prop, units, tiers, log, only=None):
    res, info = {}, {"units": {}, "cmd": "verus <unit>.rs --output-json --time-expanded --multiple-errors 20 (plus canary run: `ensures false` on every contracted fn must fail)"}
    outdir = os.path.join(os.environ.get("VERIF_EVIDENCE_DIR") or os.path.join(VERIF, "evidence"), "verus", prop)
    os.makedirs(outdir, exist_ok=True)
    for u in units:
        if u.tier not in tiers:
            continue
        if only is not None and u.name not in only:
            continue
        t0 = time.time()
        try:
            text, diffs, rcount = compose(u, outdir)
        except Undecided as e:
            res[u.name] = {"status": "undecided", "reason": str(e), "unit": u.name}
            continue
        path = os.path.join(outdir, u.name + ".rs")
        open(path, "w").write(text)
        open(os.path.join(outdir, u.name + ".extraction.diff"), "w").write("\n\n".join(diffs) + "\n")
        js, so, se, wall = run_verus(path)
        ranges = item_ranges(text)
        entry = {"unit": u.name, "obligations_ok": [], "obligations_failed": [], "wall_s": None,
                 "output": se[-8000:] if isinstance(se, str) else ""}
        if js is None:
            entry.update(status="undecided", reason=("verus timeout" if se == "timeout" else "verus produced no JSON: " + (se or so)[-400:]))
            res[u.name] = entry
            continue
        vr = js.get("verification-results", {})
        bd = breakdown(js)
        errs = error_lines(se, path)
        lines = text.split("\n")
        if vr.get("encountered-vir-error") or (not vr.get("success") and not any(not v["success"] for v in bd.values())):
            # unsupported construct / type error after an edit to /repo or to the spec: undecided
            entry.update(status="undecided", reason="verus rejected the extracted text (not a proof failure): " + se[-600:].replace("\n", " | "))
            res[u.name] = entry
            continue
        # obligations -> items
        clause_obl = {}   # line number -> obligation name
        for k, l in enumerate(lines, 1):
            m = re.search(r"//\s*OBL:(\S+)", l)
            if m:
                clause_obl[k] = m.group(1)

        def item_of_line(k):
            best = None
            for (name, l1, l2) in ranges:
                if l1 <= k <= l2 and (best is None or l1 >= best[1]):
                    best = (name, l1, l2)
            return best
        obl_items = dict(u.obl_item)
        for k, o in clause_obl.items():
            it = item_of_line(k)
            if it:
                obl_items.setdefault(o, it[0])
        failed_items = {n for n, v in bd.items() if not v["success"]}
        limit_msgs = [msg for (_k, msg) in errs if re.search(r"rlimit|Resource limit|timed out|timeout", msg)]
        if limit_msgs:
            # solver gave up: undecided, never a violation
            entry.update(status="undecided", reason="solver resource limit: " + "; ".join(limit_msgs)[:300])
            res[u.name] = entry
            continue
        flagged = set()
        for (k, msg) in errs:
            if k in clause_obl:
                flagged.add(clause_obl[k])
        # A failed Verus obligation is DECISIVE (reported as a violation) only when the item is straight-line
        # code and the failing condition is a contract clause or an arithmetic-safety check: there the SMT query
        # is (linear) arithmetic over one path set and no proof artefact is involved.  A failure inside an item
        # with loops (inductive invariants) or at a spliced proof-block assertion means the PROOF no longer goes
        # through -- the code may be a harmless rewrite -- so it is reported as undecided ("proof lost") and the
        # paired Kani harness of the same property, which runs in the same check, supplies the counterexample
        # if the behaviour really changed.
        range_by_name = {n: (l1, l2) for (n, l1, l2) in ranges}

        def item_has_loop(item):
            if item not in range_by_name:
                return True
            l1, l2 = range_by_name[item]
            return bool(loop_keywords_in("\n".join(lines[l1 - 1:l2])))
        decisive_msgs = ("postcondition not satisfied", "precondition not satisfied", "possible arithmetic underflow/overflow",
                         "possible division by zero", "possible bit shift underflow/overflow")
        proof_lost = []
        for o, item in obl_items.items():
            b = bd.get(item)
            if b is None:
                entry.setdefault("no_query", []).append(o)
                continue
            if b["success"]:
                entry["obligations_ok"].append({"name": o, "item": item, "time_s": b["time_s"], "rlimit": b["rlimit"]})
            else:
                item_errs = [(k, msg) for (k, msg) in errs if (item_of_line(k) or ("",))[0] == item]
                item_flagged = [x for x in flagged if obl_items.get(x) == item]
                msgs = [f"line {k}: {msg}: {lines[k-1].strip()[:160]}" for (k, msg) in item_errs]
                dmsgs = decisive_msgs + (("invariant not satisfied", "loop invariant not satisfied", "assertion failed", "decreases not satisfied") if u.decisive_loops else ())
                decisive = (u.decisive_loops or not item_has_loop(item)) and item_errs and all(any(msg.startswith(d) for d in dmsgs) for (_k, msg) in item_errs)
                if not decisive:
                    proof_lost.append(f"{o} ({item}): " + "; ".join(msgs)[:300])
                    continue
                if o in flagged or not item_flagged:
                    entry["obligations_failed"].append({"name": o, "item": item, "detail": "; ".join(msgs)[:800]})
        if proof_lost and not entry["obligations_failed"]:
            entry.update(status="undecided", reason="proof lost (loop invariant / proof-block assertion no longer verifies; not a decisive refutation): " + " | ".join(proof_lost)[:600])
            res[u.name] = entry
            continue
        # an item that fails but carries no named obligation (a helper lemma that other proofs call): the proofs that rely on
        # it are not established -> undecided, never silently ignored
        covered_items = set(obl_items.values())
        orphan = sorted(n for n in failed_items if n not in covered_items)
        if orphan and not entry["obligations_failed"]:
            entry.update(status="undecided", reason="proof lost: helper item(s) without a named obligation failed: " + ", ".join(orphan))
            res[u.name] = entry
            continue
        if entry.get("no_query"):
            entry.update(status="undecided", reason="no SMT query generated for: " + ", ".join(entry["no_query"]))
            res[u.name] = entry
            continue
        # canary run (vacuity guard) only when the real run verified
        canary = None
        if not failed_items:
            ctext, cnames = add_canaries(text)
            cpath = os.path.join(outdir, u.name + "_canary.rs")
            open(cpath, "w").write(ctext)
            cjs, _, cse, cwall = run_verus(cpath)
            cbd = breakdown(cjs) if cjs else {}
            if not cbd:
                entry.update(status="undecided", reason="canary run produced no per-function result: " + str(cse)[-300:].replace("\n", " | "))
                res[u.name] = entry
                continue
            vacuous = [n for n in cnames if cbd.get(n, {}).get("success", True)]
            canary = {"functions": cnames, "vacuous": vacuous, "wall_s": round(cwall, 2)}
            os.unlink(cpath)
            if vacuous:
                entry.update(status="undecided", reason="canary `ensures false` verified (contradictory requires?) for: " + ", ".join(vacuous))
                res[u.name] = entry
                info["units"][u.name] = {"canary": canary}
                continue
        entry["wall_s"] = round(time.time() - t0, 2)
        entry["status"] = "violation" if entry["obligations_failed"] else "success"
        res[u.name] = entry
        info["units"][u.name] = {
            "file": os.path.relpath(path, VERIF), "verified": vr.get("verified"), "errors": vr.get("errors"),
            "items": {k: v for k, v in bd.items()}, "smt_ms": js.get("times-ms", {}).get("smt", {}).get("total"),
            "total_ms": js.get("times-ms", {}).get("total"), "rtrace_calls_neutralised": rcount,
            "canary": canary, "verus": js.get("verus", {}).get("version"),
            "extraction_diff": os.path.relpath(os.path.join(outdir, u.name + ".extraction.diff"), VERIF)}
        log(f"[verus] {u.name}: verified={vr.get('verified')} errors={vr.get('errors')} "
            f"ok={len(entry['obligations_ok'])} failed={len(entry['obligations_failed'])} canary={'ok' if canary and not canary['vacuous'] else canary}")
    return res, info
