#!/usr/bin/env python3
"""Run the registered check of each seeded change's property against a scratch copy of /repo with the
change applied (never against /repo itself while other runs are active) and record what happened.
usage: seeded_run.py [name-substring] [--tier quick|thorough]"""
import json, os, subprocess, sys, shutil
V = os.path.dirname(os.path.dirname(os.path.abspath(__file__)))
args = sys.argv[1:]
tier = "quick"
if "--tier" in args:
    i = args.index("--tier"); tier = args[i + 1]; del args[i:i + 2]
filt = args[0] if args else ""
for name in sorted(os.listdir(os.path.join(V, "seeded"))):
    if filt not in name:
        continue
    sd = os.path.join(V, "seeded", name)
    meta = json.load(open(os.path.join(sd, "meta.json")))
    prop = meta["property"]
    d = f"/var/tmp/verif-seeded-{name}-{os.getpid()}"
    shutil.rmtree(d, ignore_errors=True)
    os.makedirs(d)
    subprocess.run(["rsync", "-a", "--exclude", "/target", "--exclude", "/.git", "--exclude", "/docs", "--exclude", "/clients", "/repo/", d + "/repo/"], check=True)
    r = subprocess.run(["git", "apply", "--unsafe-paths", "--directory", d + "/repo", os.path.join(sd, "patch.diff")], capture_output=True, text=True, cwd="/")
    if r.returncode != 0:
        r = subprocess.run(["patch", "-p1", "-d", d + "/repo", "-i", os.path.join(sd, "patch.diff")], capture_output=True, text=True)
    if r.returncode != 0:
        print(name, "patch does not apply:", r.stderr[-300:]); shutil.rmtree(d, ignore_errors=True); continue
    env = dict(os.environ, VERIF_REPO=d + "/repo", VERIF_EVIDENCE_DIR=d + "/evidence", VERIF_REPLAY_DIR=d + "/replay")
    rr = subprocess.run([os.path.join(V, "check"), prop, "--tier", tier], env=env, capture_output=True, text=True)
    out = rr.stdout + rr.stderr
    lines = [l for l in out.split("\n") if l.startswith(("VIOLATION", "UNDECIDED", "KNOWN-FINDING", "["))]
    res = {"property": prop, "tier": tier, "exit": rr.returncode, "caught": rr.returncode == 1,
           "lines": [l[:400] for l in lines if not l.startswith("KNOWN")]}
    json.dump(res, open(os.path.join(sd, f"check_result.{tier}.json"), "w"), indent=1)
    print(f"{name}: exit={rr.returncode} caught={res['caught']}")
    for l in res["lines"]:
        print("    " + l[:300])
    shutil.rmtree(d, ignore_errors=True)
