#!/usr/bin/env python3
"""Generate MANIFEST.json from contracts/properties.json + contracts/not_applicable.json"""
import json, os
V = os.path.dirname(os.path.dirname(os.path.abspath(__file__)))
props = json.load(open(os.path.join(V, "contracts", "properties.json")))
na = json.load(open(os.path.join(V, "contracts", "not_applicable.json")))
checks = []
for pid in sorted(props):
    m = props[pid]
    checks.append({
        "property_id": pid,
        "quick_cmd": f"./check {pid} --tier quick",
        "thorough_cmd": f"./check {pid} --tier thorough",
        "evidence_file": f"/verif/evidence/{pid}.json",
        "replay_cmd_template": f"./check {pid} --replay {{path}}",
        "engine": m.get("engine", "kani+verus"),
        "level_claimed": {"category": m["category"], "text": m["level_text"], "design_ref": m.get("design_ref", "DESIGN.md §4")},
        "level_note": m["level_note"],
        "technique": m["technique"],
    })
man = {
    "version": 1,
    "setup_cmd": "python3 tools/setup.py",
    "hooks": {
        "guard": "cfg(kani) (set only by kani-compiler; no hook code is committed to /repo: contracts and harness modules are appended to a staged copy of the working tree on every run)",
        "enable": "checks rsync /repo's working tree to /var/tmp, append #[cfg(kani)] harness modules / #[cfg_attr(kani, ...)] contract attributes there, and run `cargo kani --lib`; Verus units are re-extracted from /repo on every run",
        "baseline_off_cmd": "cd /repo && cargo nextest run --workspace --no-fail-fast --tool-config-file pb:/w/lib/nextest.toml --profile pb --test-threads 8 --offline",
        "source_commits": [],
        "add_only": True
    },
    "engines": [
        {"name": "kani", "path": "tools/kani_run.py", "serves_properties": [p for p in sorted(props) if "kani" in props[p].get("engine", "kani+verus")],
         "kind_free_text": "Kani 0.68 / CBMC 6.11 function contracts, loop contracts and loop-free full-domain harnesses on the real crate (annotated in a staged copy)"},
        {"name": "verus", "path": "tools/verus_run.py", "serves_properties": [p for p in sorted(props) if "verus" in props[p].get("engine", "kani+verus")],
         "kind_free_text": "Verus 0.2026.09.13 on functions extracted mechanically from /repo on every run, contracts spliced from contracts/verus/*.spec"}
    ],
    "checks": checks,
    "not_applicable": na,
    "notes": "Contract-based deductive verification of the real code. Exit 2 (UNDECIDED) is used for lost anchors, build failures and timeouts and is never a VIOLATION. See DESIGN.md."
}
json.dump(man, open(os.path.join(V, "MANIFEST.json"), "w"), indent=1)
print("MANIFEST.json:", len(checks), "checks,", len(na), "not applicable")
