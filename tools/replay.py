#!/usr/bin/env python3
"""Replay files for refuted obligations.

Kani: the failing harness is re-run with `--concrete-playback=print`; the byte vectors
Kani prints (one per `kani::any()`), are decoded and the generated unit test is executed
natively with `cargo kani playback` in the staged copy -- i.e. the harness body calls the
REAL function with the concrete counterexample and its assertion panics natively.
Harnesses that need stubs (clock) cannot be played back natively; Verus gives no
counterexample.  Those replay files carry the obligation name and the verifier output and
the VIOLATION line ends `no-failing-input-found`.
"""
import json, os, re, subprocess, time

VERIF = os.path.dirname(os.path.dirname(os.path.abspath(__file__)))
import kani_run

PLAYBACK_CACHE = os.path.join(VERIF, ".cache", "kani-playback-target")


def show(path):
    print(open(path).read())
    return 0


def _safe(s):
    return re.sub(r"[^A-Za-z0-9_.-]", "_", s)


def make(prop, obl, detail, ke, ve, kunits, st, tgt, kinfo, vinfo, log, jobs):
    rdir = os.environ.get("VERIF_REPLAY_DIR") or os.path.join(VERIF, "replay")
    os.makedirs(rdir, exist_ok=True)
    path = os.path.join(rdir, f"{prop}.{_safe(obl)}.replay.txt")
    out = [f"property: {prop}", f"failed obligation: {obl}", f"meaning: {detail}",
           f"generated: {time.strftime('%Y-%m-%dT%H:%M:%S')}", ""]
    found = False
    if ke is not None:
        out.append(f"backend: kani/cbmc   harness: {ke['unit']}::{ke['harness']}  kind={ke['kind']} {ke['bound']}")
        out.append("failed checks: " + "; ".join(ke["obligations_failed"] + ke["safety_failed"] + ke["known_reproduced"]))
        unit = [u for u in kunits if u.name == ke["unit"]][0]
        try:
            pb = playback(unit, ke["harness"], st, tgt, log, jobs, has_stubs=bool(ke["stubs"]), failed=[obl] + ke["obligations_failed"])
            out += ["", "---- concrete counterexample (kani --concrete-playback=print) ----"] + pb["text"]
            found = pb["native_failed"]
            if pb["native_failed"]:
                out.append("")
                out.append("NATIVE REPLAY: the generated test, run natively against the staged copy of the real code, FAILED as predicted.")
            elif pb["native_ran"]:
                out.append("")
                out.append("NATIVE REPLAY: the generated test did NOT fail natively (counterexample not reproduced).")
        except Exception as e:  # replay problems never hide the violation
            out.append(f"playback unavailable: {e}")
    if ve is not None:
        out.append(f"backend: verus/z3   unit: {ve.get('unit')}")
        out.append("verus gives no counterexample; verifier output follows")
        out += ["", ve.get("output", "")[-6000:]]
    open(path, "w").write("\n".join(out) + "\n")
    return path, found


def decode_vectors(test_src):
    """pull the `vec![ ... ]` byte vectors with their `// value` comments out of the generated test"""
    vals = []
    for m in re.finditer(r"//\s*(.+?)\n\s*vec!\[([0-9,\s]*)\]", test_src):
        vals.append((m.group(1).strip(), [int(x) for x in m.group(2).replace(" ", "").split(",") if x]))
    return vals


def playback(unit, harness, st, tgt, log, jobs, has_stubs, failed=None):
    res = {"text": [], "native_ran": False, "native_failed": False}
    filt = f"{unit.modname}::{harness}"
    env = dict(os.environ, CARGO_NET_OFFLINE="true", CARGO_TARGET_DIR=tgt)
    cmd = ["cargo", "kani", "--lib"] + kani_run.KANI_FLAGS + ["-Z", "concrete-playback",
           "--concrete-playback=print", "--harness", filt, "--harness-timeout", "900s"]
    log(f"[replay] concrete playback of {filt}")
    r = subprocess.run(cmd, cwd=st, env=env, stdout=subprocess.PIPE, stderr=subprocess.STDOUT, text=True)
    blocks = re.findall(r"```\s*\n(.*?)```", r.stdout, re.S)
    if not blocks:
        res["text"].append("kani printed no concrete playback test")
        res["text"].append(r.stdout[-1500:])
        return res
    # kani prints one test per failed check / satisfied cover: pick the one for a failed obligation
    want = [b for b in blocks if any(("OBL:" + o) in b for o in (failed or []))]
    if not want:
        want = [b for b in blocks if "Check for `cover`" not in b]
    test_src = (want or blocks)[0]
    res["text"] += test_src.split("\n")
    vals = decode_vectors(test_src)
    if vals:
        res["text"].append("")
        res["text"].append("decoded inputs in order of kani::any() calls:")
        for (comment, bytes_) in vals:
            res["text"].append(f"  {comment}   bytes(le)={bytes_}")
    if has_stubs:
        res["text"].append("")
        res["text"].append("harness uses stubs (clock / formatting); native playback does not apply stubs -> not replayed natively")
        return res
    # native run: inject the test into the harness module of the staged file and run it
    tname = re.search(r"fn (kani_concrete_playback_\w+)", test_src)
    if not tname:
        return res
    p = os.path.join(st, unit.file)
    src = open(p).read()
    k = src.rstrip().rfind("}")
    src = src[:k] + "\n" + test_src + "\n}\n"
    open(p, "w").write(src)
    env2 = dict(os.environ, CARGO_NET_OFFLINE="true", CARGO_TARGET_DIR=PLAYBACK_CACHE)
    cmd2 = ["cargo", "kani", "playback", "-Z", "concrete-playback", "--lib", "--", tname.group(1)]
    t0 = time.time()
    r2 = subprocess.run(cmd2, cwd=st, env=env2, stdout=subprocess.PIPE, stderr=subprocess.STDOUT, text=True)
    log(f"[replay] native playback rc={r2.returncode} in {time.time()-t0:.0f}s")
    tail = r2.stdout[-2500:]
    res["text"] += ["", "---- cargo kani playback (native run of the real code) ----"] + tail.split("\n")
    if re.search(r"test result: FAILED|panicked at", r2.stdout):
        res["native_ran"] = True
        res["native_failed"] = True
    elif re.search(r"test result: ok", r2.stdout):
        res["native_ran"] = True
    return res
