//@unit c08_temporal_builder
//@property C08
//@file src/engine/core/time/zone_temporal_index.rs
//@needs pub fn from_timestamps(mut ts: Vec<i64>, stride: i64, fence_count: usize) -> Self {
//@function src/engine/core/time/zone_temporal_index.rs::from_timestamps
//@harness name=from_timestamps_wf_n2 kind=bounded bound="2 timestamps" tier=thorough timeout=1500 gate=yes
//@harness name=from_timestamps_wf_n3 kind=bounded bound="3 timestamps" tier=manual timeout=3000 gate=yes
//@harness name=from_timestamps_empty kind=complete tier=quick timeout=300
//@obligation C08.temporal_builder.from_timestamps.establishes_wf : the index built from a timestamp multiset satisfies the representation invariant wf used by the Verus probe contracts (stride 1, keys strictly sorted from 0, min/max are the extremes, span fits i64)
//@obligation C08.temporal_builder.from_timestamps.view_is_input_set : every input timestamp is stored (min + key) and every stored key comes from an input timestamp
//@obligation C08.temporal_builder.from_timestamps.empty : no timestamps -> empty key list (an empty zone has no rows to miss)

    fn check(ts: &[i64], z: &ZoneTemporalIndex) {
        // wf(z) exactly as in contracts/verus/c08_temporal_index.spec
        let n = z.keys.len();
        let mut wf = z.stride == 1 && n > 0 && n <= ts.len() && z.keys[0] == 0
            && (z.max_ts as i128 - z.min_ts as i128) <= i64::MAX as i128
            && z.min_ts as i128 + z.keys[n - 1] as i128 == z.max_ts as i128;
        let mut i = 1;
        while i < n {
            wf = wf && z.keys[i - 1] < z.keys[i];
            i += 1;
        }
        assert!(wf, "OBL:C08.temporal_builder.from_timestamps.establishes_wf");
        // view == set of inputs
        let mut all_in = true;
        for t in ts.iter() {
            let mut found = false;
            for k in z.keys.iter() {
                found = found || (z.min_ts as i128 + *k as i128 == *t as i128);
            }
            all_in = all_in && found;
        }
        let mut none_extra = true;
        for k in z.keys.iter() {
            let mut from_input = false;
            for t in ts.iter() {
                from_input = from_input || (z.min_ts as i128 + *k as i128 == *t as i128);
            }
            none_extra = none_extra && from_input;
        }
        assert!(all_in && none_extra, "OBL:C08.temporal_builder.from_timestamps.view_is_input_set");
    }

    fn span_fits(ts: &[i64]) -> bool {
        let mut ok = true;
        for a in ts.iter() {
            for b in ts.iter() {
                ok = ok && a.checked_sub(*b).is_some();
            }
        }
        ok
    }

    #[kani::proof]
    fn from_timestamps_wf_n2() {
        let ts: [i64; 2] = kani::any();
        kani::assume(span_fits(&ts)); // precondition of the builder: one zone's span fits i64
        let z = ZoneTemporalIndex::from_timestamps(ts.to_vec(), 1, 64);
        kani::cover!(ts[0] > ts[1], "COVER:unsorted_input");
        kani::cover!(ts[0] == ts[1], "COVER:duplicate_input");
        check(&ts, &z);
    }

    #[kani::proof]
    fn from_timestamps_wf_n3() {
        let ts: [i64; 3] = kani::any();
        kani::assume(span_fits(&ts));
        let z = ZoneTemporalIndex::from_timestamps(ts.to_vec(), 1, 64);
        kani::cover!(ts[0] > ts[1] && ts[1] > ts[2], "COVER:reversed_input");
        kani::cover!(ts[0] == ts[2] && ts[0] != ts[1], "COVER:duplicate_input");
        check(&ts, &z);
    }

    #[kani::proof]
    fn from_timestamps_empty() {
        let z = ZoneTemporalIndex::from_timestamps(Vec::new(), 1, 64);
        kani::cover!(true, "COVER:reached");
        assert!(z.keys.is_empty(), "OBL:C08.temporal_builder.from_timestamps.empty");
    }
