//@unit c07_column_values
//@property C07
//@file src/engine/core/column/column_block_snapshot.rs
//@needs fn values_to_scalar(phys: PhysicalType, values: &ColumnValues) -> Vec<ScalarValue> {
//@function src/engine/core/column/column_block_snapshot.rs::values_to_scalar
//@function src/engine/core/column/column_values.rs::get_i64_at
//@function src/engine/core/column/column_values.rs::get_u64_at
//@function src/engine/core/column/column_values.rs::get_f64_at
//@function src/engine/core/column/column_values.rs::get_bool_at
//@harness name=typed_getters_two_rows kind=bounded bound="2 rows per typed column (i64, u64, f64, bool), null bitmap symbolic" tier=quick timeout=900
//@harness name=scalars_from_u64_column kind=bounded bound="2 rows, null bitmap symbolic" tier=quick timeout=900 stubs=yes
//@harness name=scalars_from_i64_f64_bool_columns kind=bounded bound="2 rows per column" tier=quick timeout=900
//@obligation C07.column_values.typed_getters : a typed column block returns for each row exactly the stored 8-byte value (bit for bit) and None exactly for rows whose null bit is set [bounded: 2 rows]
//@obligation C07.column_values.u64_scalar_denotes_stored_value : when a u64 column is read back for compaction, a non-null value v is Int64(v) if it fits and a decimal string otherwise -- never a different (e.g. negative) number; nulls stay Null [bounded: 2 rows]
//@obligation C07.column_values.i64_f64_bool_scalars : i64 / f64 / bool columns come back as Int64 / Float64 (same bits) / Boolean of the stored value, nulls as Null [bounded: 2 rows]

    use crate::engine::core::read::cache::DecompressedBlock;

    /// block layout used here: [null bitmap byte][7 pad bytes][row0: 8 bytes][row1: 8 bytes]
    fn block(nulls: u8, r0: [u8; 8], r1: [u8; 8]) -> Arc<DecompressedBlock> {
        let mut b = vec![nulls, 0, 0, 0, 0, 0, 0, 0];
        b.extend_from_slice(&r0);
        b.extend_from_slice(&r1);
        Arc::new(DecompressedBlock::from_bytes(b))
    }
    fn is_null(nulls: u8, i: usize) -> bool { nulls & (1 << i) != 0 }

    #[kani::proof]
    #[kani::unwind(10)]
    fn typed_getters_two_rows() {
        let nulls: u8 = kani::any();
        let (a, b): (u64, u64) = (kani::any(), kani::any());
        let blk = block(nulls, a.to_le_bytes(), b.to_le_bytes());
        let cu = std::mem::ManuallyDrop::new(ColumnValues::new_typed_u64(blk.clone(), 8, 2, Some((0, 1))));
        let ci = std::mem::ManuallyDrop::new(ColumnValues::new_typed_i64(blk.clone(), 8, 2, Some((0, 1))));
        let cf = std::mem::ManuallyDrop::new(ColumnValues::new_typed_f64(blk.clone(), 8, 2, Some((0, 1))));
        let vals = [a, b];
        let mut ok = true;
        let mut i = 0;
        while i < 2 {
            let n = is_null(nulls, i);
            ok = ok && cu.get_u64_at(i) == if n { None } else { Some(vals[i]) };
            ok = ok && ci.get_i64_at(i) == if n { None } else { Some(vals[i] as i64) };
            ok = ok && cf.get_f64_at(i).map(|f| f.to_bits()) == if n { None } else { Some(vals[i]) };
            i += 1;
        }
        ok = ok && cu.get_u64_at(2).is_none() && ci.get_i64_at(2).is_none() && cf.get_f64_at(2).is_none();
        // bool column: [nulls byte][value bits byte]
        let bits: u8 = kani::any();
        let bb = Arc::new(DecompressedBlock::from_bytes(vec![nulls, bits]));
        let cb = std::mem::ManuallyDrop::new(ColumnValues::new_typed_bool(bb, 1, 2, Some((0, 1))));
        let mut j = 0;
        while j < 2 {
            ok = ok && cb.get_bool_at(j) == if is_null(nulls, j) { None } else { Some(bits & (1 << j) != 0) };
            j += 1;
        }
        kani::cover!(is_null(nulls, 0) && !is_null(nulls, 1), "COVER:one_null");
        std::mem::forget(blk);
        assert!(ok, "OBL:C07.column_values.typed_getters");
    }

    fn fmt_stub(_args: std::fmt::Arguments<'_>) -> String { String::new() }

    #[kani::proof]
    #[kani::stub(alloc::fmt::format, fmt_stub)]
    #[kani::unwind(10)]
    fn scalars_from_u64_column() {
        let nulls: u8 = kani::any();
        let (a, b): (u64, u64) = (kani::any(), kani::any());
        let cu = std::mem::ManuallyDrop::new(ColumnValues::new_typed_u64(block(nulls, a.to_le_bytes(), b.to_le_bytes()), 8, 2, Some((0, 1))));
        let out = std::mem::ManuallyDrop::new(ColumnBlockSnapshot::values_to_scalar(PhysicalType::U64, &cu));
        let vals = [a, b];
        let mut ok = out.len() == 2;
        let mut i = 0;
        while i < 2 {
            if ok {
                ok = match &out[i] {
                    ScalarValue::Null => is_null(nulls, i),
                    ScalarValue::Int64(x) => !is_null(nulls, i) && *x >= 0 && *x as u64 == vals[i],
                    ScalarValue::Utf8(_) => !is_null(nulls, i) && vals[i] > i64::MAX as u64, // decimal text: std formatting, not checked here
                    _ => false,
                };
            }
            i += 1;
        }
        kani::cover!(a > i64::MAX as u64 && !is_null(nulls, 0), "COVER:above_i64_max");
        assert!(ok, "OBL:C07.column_values.u64_scalar_denotes_stored_value");
    }

    #[kani::proof]
    #[kani::unwind(10)]
    fn scalars_from_i64_f64_bool_columns() {
        let nulls: u8 = kani::any();
        let (a, b): (u64, u64) = (kani::any(), kani::any());
        let blk = block(nulls, a.to_le_bytes(), b.to_le_bytes());
        let ci = std::mem::ManuallyDrop::new(ColumnValues::new_typed_i64(blk.clone(), 8, 2, Some((0, 1))));
        let cf = std::mem::ManuallyDrop::new(ColumnValues::new_typed_f64(blk.clone(), 8, 2, Some((0, 1))));
        let oi = std::mem::ManuallyDrop::new(ColumnBlockSnapshot::values_to_scalar(PhysicalType::I64, &ci));
        let of = std::mem::ManuallyDrop::new(ColumnBlockSnapshot::values_to_scalar(PhysicalType::F64, &cf));
        let bits: u8 = kani::any();
        let cb = std::mem::ManuallyDrop::new(ColumnValues::new_typed_bool(Arc::new(DecompressedBlock::from_bytes(vec![nulls, bits])), 1, 2, Some((0, 1))));
        let ob = std::mem::ManuallyDrop::new(ColumnBlockSnapshot::values_to_scalar(PhysicalType::Bool, &cb));
        let vals = [a, b];
        let mut ok = oi.len() == 2 && of.len() == 2 && ob.len() == 2;
        let mut i = 0;
        while i < 2 {
            if ok {
                let n = is_null(nulls, i);
                ok = (match &oi[i] { ScalarValue::Null => n, ScalarValue::Int64(x) => !n && *x == vals[i] as i64, _ => false })
                    && (match &of[i] { ScalarValue::Null => n, ScalarValue::Float64(f) => !n && f.to_bits() == vals[i], _ => false })
                    && (match &ob[i] { ScalarValue::Null => n, ScalarValue::Boolean(x) => !n && *x == (bits & (1 << i) != 0), _ => false });
            }
            i += 1;
        }
        kani::cover!(!is_null(nulls, 0) && !is_null(nulls, 1), "COVER:no_nulls");
        std::mem::forget(blk);
        assert!(ok, "OBL:C07.column_values.i64_f64_bool_scalars");
    }
