//@unit c13_user_id
//@property C13
//@file src/engine/auth/user_ops.rs
//@rtrace src/engine/auth/user_ops.rs
//@needs fn validate_user_id(user_id: &str) -> AuthResult<()> {
//@function src/engine/auth/user_ops.rs::validate_user_id
//@harness name=reserved_ids_rejected kind=bounded bound="user ids of exactly 6 and 7 symbolic bytes (the lengths of the two reserved ids)" tier=quick timeout=1800
//@harness name=charset_enforced kind=bounded bound="user ids of 1..=3 symbolic ASCII bytes" tier=quick timeout=900
//@harness name=reserved_ids_any_length_8 kind=bounded bound="user ids of 0..=8 symbolic ASCII bytes" tier=thorough timeout=3600 gate=yes
//@obligation C13.user_id.validate_user_id.not_reserved : no accepted user id equals an id that the handlers treat as 'skip the permission check' (BYPASS_USER_ID, NO_AUTH_USER_ID): no choice of user id bypasses the checks
//@obligation C13.user_id.validate_user_id.charset : an accepted ASCII id consists of letters, digits, '_' and '-' only and is non-empty

    use super::super::types::{BYPASS_USER_ID, NO_AUTH_USER_ID};

    #[kani::proof]
    #[kani::unwind(9)]
    fn reserved_ids_rejected() {
        let b6: [u8; 6] = kani::any();
        let b7: [u8; 7] = kani::any();
        let mut i = 0;
        while i < 6 { kani::assume(b6[i] < 0x80); i += 1; }
        let mut j = 0;
        while j < 7 { kani::assume(b7[j] < 0x80); j += 1; }
        let s6 = unsafe { std::str::from_utf8_unchecked(&b6) };
        let s7 = unsafe { std::str::from_utf8_unchecked(&b7) };
        let ok6 = validate_user_id(s6).is_ok();
        let ok7 = validate_user_id(s7).is_ok();
        kani::cover!(ok6, "COVER:some_6_byte_id_accepted");
        kani::cover!(ok7, "COVER:some_7_byte_id_accepted");
        let reserved6 = b6 == *b"bypass";
        let reserved7 = b7 == *b"no-auth";
        assert!(BYPASS_USER_ID.len() == 6 && NO_AUTH_USER_ID.len() == 7 && BYPASS_USER_ID.as_bytes() == b"bypass" && NO_AUTH_USER_ID.as_bytes() == b"no-auth",
            "OBL:C13.user_id.validate_user_id.not_reserved");
        assert!(!(ok6 && reserved6) && !(ok7 && reserved7), "OBL:C13.user_id.validate_user_id.not_reserved");
    }

    #[kani::proof]
    #[kani::unwind(6)]
    fn charset_enforced() {
        let b: [u8; 3] = kani::any();
        kani::assume(b[0] < 0x80 && b[1] < 0x80 && b[2] < 0x80);
        let len: usize = kani::any();
        kani::assume(len <= 3);
        let s = unsafe { std::str::from_utf8_unchecked(&b[..len]) };
        let ok = validate_user_id(s).is_ok();
        let mut all_allowed = len > 0;
        let mut i = 0;
        while i < 3 {
            if i < len {
                let c = b[i];
                all_allowed = all_allowed && (c.is_ascii_alphanumeric() || c == b'_' || c == b'-');
            }
            i += 1;
        }
        kani::cover!(ok && len == 3, "COVER:accepted");
        kani::cover!(!ok && len == 3, "COVER:rejected");
        assert!(ok == all_allowed, "OBL:C13.user_id.validate_user_id.charset");
    }

    #[kani::proof]
    #[kani::unwind(10)]
    fn reserved_ids_any_length_8() {
        let b: [u8; 8] = kani::any();
        let mut i = 0;
        while i < 8 { kani::assume(b[i] < 0x80); i += 1; }
        let len: usize = kani::any();
        kani::assume(len <= 8);
        let s = unsafe { std::str::from_utf8_unchecked(&b[..len]) };
        let ok = validate_user_id(s).is_ok();
        let reserved = (len == 6 && b[..6] == *b"bypass") || (len == 7 && b[..7] == *b"no-auth");
        kani::cover!(ok && len == 8, "COVER:accepted_8");
        assert!(!(ok && reserved), "OBL:C13.user_id.validate_user_id.not_reserved");
    }
