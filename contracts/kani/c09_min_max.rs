//@unit c09_min_max
//@property C09
//@file src/engine/core/read/aggregate/ops.rs
//@needs pub fn merge(&mut self, other: &Min) {
//@needs pub fn merge(&mut self, other: &Max) {
//@function src/engine/core/read/aggregate/ops.rs::merge
//@harness name=min_max_merge_numeric kind=complete tier=quick timeout=600
//@obligation C09.min_max.merge_numeric : Min::merge / Max::merge on numeric state equal min / max over the options, for all values (None is the identity)

    fn opt_min(a: Option<i64>, b: Option<i64>) -> Option<i64> {
        match (a, b) { (Some(x), Some(y)) => Some(if y < x { y } else { x }), (None, y) => y, (x, None) => x }
    }
    fn opt_max(a: Option<i64>, b: Option<i64>) -> Option<i64> {
        match (a, b) { (Some(x), Some(y)) => Some(if y > x { y } else { x }), (None, y) => y, (x, None) => x }
    }

    #[kani::proof]
    #[kani::unwind(4)]
    fn min_max_merge_numeric() {
        let (a, b): (Option<i64>, Option<i64>) = (kani::any(), kani::any());
        let mut mn = std::mem::ManuallyDrop::new(Min { field: String::new(), min_num: a, min_str: None });
        mn.merge(&std::mem::ManuallyDrop::new(Min { field: String::new(), min_num: b, min_str: None }));
        let mut mx = std::mem::ManuallyDrop::new(Max { field: String::new(), max_num: a, max_str: None });
        mx.merge(&std::mem::ManuallyDrop::new(Max { field: String::new(), max_num: b, max_str: None }));
        kani::cover!(a.is_some() && b.is_some(), "COVER:both");
        assert!(mn.min_num == opt_min(a, b) && mn.min_str.is_none() && mx.max_num == opt_max(a, b) && mx.max_str.is_none(),
            "OBL:C09.min_max.merge_numeric");
    }
