//@unit c04_merge_order
//@property C04
//@file src/engine/core/zone/zone_merger.rs
//@rtrace src/engine/core/zone/zone_merger.rs
//@needs impl Ord for HeapItem {
//@function src/engine/core/zone/zone_merger.rs::cmp
//@function src/engine/core/zone/zone_merger.rs::partial_cmp
//@function src/engine/core/zone/zone_merger.rs::eq
//@harness name=heap_item_order kind=bounded bound="context ids of 0..=2 symbolic bytes; cursor index < 2^16" tier=quick timeout=900
//@harness name=heap_item_order_4_bytes kind=bounded bound="context ids of 0..=4 symbolic bytes" tier=thorough timeout=2400 gate=yes
//@obligation C04.merge_order.HeapItem.context_is_primary_key : a smaller context id always compares Less (the compacted zones stay sorted by context)
//@obligation C04.merge_order.HeapItem.tie_break_by_cursor : for equal context ids the lower cursor index (older zone) compares Less and items of different cursors never compare Equal -- BinaryHeap leaves the order of equal items unspecified, so without this a context's rows from two zones interleave
//@obligation C04.merge_order.HeapItem.consistent_total_order : cmp is antisymmetric, partial_cmp == Some(cmp), eq <=> cmp == Equal

    use std::cmp::Ordering;

    fn small_bytes() -> Vec<u8> {
        let len: usize = kani::any();
        kani::assume(len <= 2);
        let b: [u8; 2] = kani::any();
        kani::assume(b[0] < 0x80 && b[1] < 0x80);
        b[..len].to_vec()
    }

    #[kani::proof]
    #[kani::unwind(4)]
    fn heap_item_order() {
        let (ba, bb) = (small_bytes(), small_bytes());
        let (ca, cb): (usize, usize) = (kani::any(), kani::any());
        kani::assume(ca < 65536 && cb < 65536);
        let key_lt = ba < bb;
        let key_eq = ba == bb;
        let x = std::mem::ManuallyDrop::new(HeapItem { context_id: unsafe { String::from_utf8_unchecked(ba) }, cursor_index: ca });
        let y = std::mem::ManuallyDrop::new(HeapItem { context_id: unsafe { String::from_utf8_unchecked(bb) }, cursor_index: cb });
        let (xy, yx) = (x.cmp(&y), y.cmp(&x));
        kani::cover!(key_eq && ca != cb, "COVER:same_context_two_cursors");
        kani::cover!(key_lt, "COVER:different_contexts");
        assert!(!key_lt || xy == Ordering::Less, "OBL:C04.merge_order.HeapItem.context_is_primary_key");
        assert!(!key_eq || (xy == ca.cmp(&cb)), "OBL:C04.merge_order.HeapItem.tie_break_by_cursor");
        assert!(xy == yx.reverse() && x.partial_cmp(&y) == Some(xy) && (*x == *y) == (xy == Ordering::Equal),
            "OBL:C04.merge_order.HeapItem.consistent_total_order");
    }

    fn bytes4() -> Vec<u8> {
        let len: usize = kani::any();
        kani::assume(len <= 4);
        let b: [u8; 4] = kani::any();
        kani::assume(b[0] < 0x80 && b[1] < 0x80 && b[2] < 0x80 && b[3] < 0x80);
        b[..len].to_vec()
    }

    #[kani::proof]
    #[kani::unwind(6)]
    fn heap_item_order_4_bytes() {
        let (ba, bb) = (bytes4(), bytes4());
        let (ca, cb): (usize, usize) = (kani::any(), kani::any());
        let key_lt = ba < bb;
        let key_eq = ba == bb;
        let x = std::mem::ManuallyDrop::new(HeapItem { context_id: unsafe { String::from_utf8_unchecked(ba) }, cursor_index: ca });
        let y = std::mem::ManuallyDrop::new(HeapItem { context_id: unsafe { String::from_utf8_unchecked(bb) }, cursor_index: cb });
        let (xy, yx) = (x.cmp(&y), y.cmp(&x));
        kani::cover!(key_eq && ca != cb, "COVER:same_context_two_cursors");
        assert!(!key_lt || xy == Ordering::Less, "OBL:C04.merge_order.HeapItem.context_is_primary_key");
        assert!(!key_eq || (xy == ca.cmp(&cb)), "OBL:C04.merge_order.HeapItem.tie_break_by_cursor");
        assert!(xy == yx.reverse() && x.partial_cmp(&y) == Some(xy) && (*x == *y) == (xy == Ordering::Equal),
            "OBL:C04.merge_order.HeapItem.consistent_total_order");
    }
