//@unit c06_memtable_context
//@property C06
//@file src/engine/core/memory/memtable.rs
//@needs pub fn insert(&mut self, event: Event) -> Result<(), StoreError> {
//@function src/engine/core/memory/memtable.rs::insert
//@harness name=blank_context_rejected kind=bounded bound="context ids of 0..=2 bytes over {space, tab, 'x'}" tier=quick timeout=900
//@obligation C06.memtable_context.blank_context_rejected : an event whose context id is empty or whitespace-only is rejected and leaves no trace in the memtable; any other context id (with a non-blank type) is stored [bounded]

    use crate::engine::core::EventId;

    #[kani::proof]
    #[kani::unwind(8)]
    fn blank_context_rejected() {
        let len: usize = kani::any();
        kani::assume(len <= 2);
        let pick = |k: u8| -> u8 { match k % 3 { 0 => b' ', 1 => b'\t', _ => b'x' } };
        let (k0, k1): (u8, u8) = (kani::any(), kani::any());
        let bytes = [pick(k0), pick(k1)];
        let blank = (len == 0) || (len == 1 && bytes[0] != b'x') || (len == 2 && bytes[0] != b'x' && bytes[1] != b'x');
        let ctx = unsafe { String::from_utf8_unchecked(bytes[..len].to_vec()) };
        let mut m = MemTable::new(10);
        let r = m.insert(Event { event_type: String::from("e"), context_id: ctx, timestamp: 0, id: EventId::from_raw(1), payload: BTreeMap::new() });
        kani::cover!(blank && len == 2, "COVER:whitespace_only");
        kani::cover!(!blank, "COVER:accepted");
        let ok = if blank { r.is_err() && m.count == 0 && m.events.is_empty() } else { r.is_ok() && m.count == 1 };
        std::mem::forget(m); std::mem::forget(r);
        assert!(ok, "OBL:C06.memtable_context.blank_context_rejected");
    }
