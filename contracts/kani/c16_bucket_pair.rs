//@unit c16_bucket_pair
//@property C16
//@file src/shared/datetime/time_bucketing.rs
//@needs pub fn naive_bucket_of(ts: u64, gran: &TimeGranularity) -> u64 {
//@function src/shared/datetime/time_bucketing.rs::naive_bucket_of
//@harness name=bucket_hour kind=bounded bound="ts < 2^36 s (year 4147)" tier=quick timeout=600
//@harness name=bucket_day kind=bounded bound="ts < 2^36 s" tier=quick timeout=600
//@harness name=bucket_week kind=bounded bound="ts < 2^36 s" tier=quick timeout=600
//@harness name=bucket_month kind=bounded bound="ts < 2^36 s" tier=quick timeout=600
//@harness name=bucket_year kind=bounded bound="ts < 2^36 s" tier=quick timeout=600
//@harness name=bucket_hour_40 kind=bounded bound="ts < 2^40 s" tier=thorough timeout=3600 gate=yes
//@harness name=bucket_day_40 kind=bounded bound="ts < 2^40 s" tier=thorough timeout=3600 gate=yes
//@obligation C16.bucket_pair.naive_bucket_of.hour : counterexample finder paired with the Verus proof (unit c16_bucket): aligned and containing, HOUR [bounded]
//@obligation C16.bucket_pair.naive_bucket_of.day : same, DAY [bounded]
//@obligation C16.bucket_pair.naive_bucket_of.week : same, WEEK [bounded]
//@obligation C16.bucket_pair.naive_bucket_of.month : same, MONTH (30 days) [bounded]
//@obligation C16.bucket_pair.naive_bucket_of.year : same, YEAR (365 days) [bounded]

    fn any_ts() -> u64 {
        let ts: u64 = kani::any();
        kani::assume(ts < (1u64 << 36));
        ts
    }

    macro_rules! bucket_harness { ($name:ident, $gran:expr, $w:expr, $obl:expr) => {
        #[kani::proof]
        fn $name() {
            let ts = any_ts();
            let r = naive_bucket_of(ts, &$gran);
            kani::cover!(ts > 1_700_000_000, "COVER:recent");
            assert!(r <= ts && ts - r < $w && r % $w == 0, $obl);
        }
    }; }
    bucket_harness!(bucket_hour, TimeGranularity::Hour, 3600u64, "OBL:C16.bucket_pair.naive_bucket_of.hour");
    bucket_harness!(bucket_day, TimeGranularity::Day, 86_400u64, "OBL:C16.bucket_pair.naive_bucket_of.day");
    bucket_harness!(bucket_week, TimeGranularity::Week, 604_800u64, "OBL:C16.bucket_pair.naive_bucket_of.week");
    bucket_harness!(bucket_month, TimeGranularity::Month, 2_592_000u64, "OBL:C16.bucket_pair.naive_bucket_of.month");
    bucket_harness!(bucket_year, TimeGranularity::Year, 31_536_000u64, "OBL:C16.bucket_pair.naive_bucket_of.year");

    macro_rules! bucket_harness_40 { ($name:ident, $gran:expr, $w:expr, $obl:expr) => {
        #[kani::proof]
        fn $name() {
            let ts: u64 = kani::any();
            kani::assume(ts < (1u64 << 40));
            let r = naive_bucket_of(ts, &$gran);
            kani::cover!(ts > (1u64 << 39), "COVER:far_future");
            assert!(r <= ts && ts - r < $w && r % $w == 0, $obl);
        }
    }; }
    bucket_harness_40!(bucket_hour_40, TimeGranularity::Hour, 3600u64, "OBL:C16.bucket_pair.naive_bucket_of.hour");
    bucket_harness_40!(bucket_day_40, TimeGranularity::Day, 86_400u64, "OBL:C16.bucket_pair.naive_bucket_of.day");
