//@unit c07_block_decode
//@property C07
//@file src/engine/core/column/reader/decoders.rs
//@needs pub fn decoder_for(phys: PhysicalType) -> &'static dyn ColumnDecoder {
//@function src/engine/core/column/reader/view.rs::parse
//@function src/engine/core/column/reader/view.rs::align_up
//@function src/engine/core/column/reader/decoders.rs::build_values
//@function src/engine/core/column/reader/decoders.rs::decoder_for
//@harness name=decode_numeric_block kind=bounded bound="2 rows; i64 / u64 / f64 blocks laid out as ColumnGroupBuilder::finish writes them (header, optional null bitmap, pad to 8, payload)" tier=quick timeout=900 stubs=yes
//@harness name=decode_bool_block kind=bounded bound="2 rows" tier=quick timeout=900 stubs=yes
//@harness name=decode_varbytes_block kind=bounded bound="2 rows of 0..=2 bytes each" tier=quick timeout=900 stubs=yes
//@obligation C07.block_decode.numeric_rows_come_back : parse -> decoder_for(tag) -> typed getters return every stored i64 / u64 / f64 of a block in the writer's layout bit for bit, nulls as None [bounded; the writer half (HashMap-keyed) is transcribed, not executed]
//@obligation C07.block_decode.bool_rows_come_back : same for a bool block (value bitset in the payload, null bitset in aux)
//@obligation C07.block_decode.string_rows_come_back : same for a VarBytes block: each row's bytes come back unchanged, including empty strings

    fn fmt_stub(_args: std::fmt::Arguments<'_>) -> String { String::new() }

    /// the layout written by ColumnGroupBuilder::finish for a fixed-width numeric column of 2 rows
    fn numeric_block(phys: PhysicalType, nulls: u8, r0: [u8; 8], r1: [u8; 8]) -> Vec<u8> {
        let any_nulls = nulls & 0b11 != 0;
        let mut aux_len = if any_nulls { 1usize } else { 0 };
        let pad = (8 - ((ColumnBlockHeader::LEN + aux_len) % 8)) % 8;
        aux_len += pad;
        let mut buf = Vec::new();
        ColumnBlockHeader::new(phys, any_nulls, 2, aux_len as u32).write_to(&mut buf);
        if any_nulls { buf.push(nulls & 0b11); }
        let mut k = 0;
        while k < pad { buf.push(0); k += 1; }
        buf.extend_from_slice(&r0);
        buf.extend_from_slice(&r1);
        buf
    }

    fn decode(bytes: Vec<u8>) -> Option<std::mem::ManuallyDrop<ColumnValues>> {
        let block = Arc::new(DecompressedBlock::from_bytes(bytes));
        let view = match ColumnBlockView::parse(&block.bytes[..]) { Ok(v) => v, Err(_) => return None };
        let r = decoder_for(view.phys).build_values(&view, 2, block.clone());
        std::mem::forget(block);
        match r { Ok(v) => Some(std::mem::ManuallyDrop::new(v)), Err(_) => None }
    }

    #[kani::proof]
    #[kani::stub(alloc::fmt::format, fmt_stub)]
    #[kani::unwind(12)]
    fn decode_numeric_block() {
        let nulls: u8 = kani::any();
        let (a, b): (u64, u64) = (kani::any(), kani::any());
        let n0 = nulls & 1 != 0;
        let n1 = nulls & 2 != 0;
        // the writer stores 0 in the payload of a null row
        let (pa, pb) = (if n0 { 0 } else { a }, if n1 { 0 } else { b });
        let vi = decode(numeric_block(PhysicalType::I64, nulls, pa.to_le_bytes(), pb.to_le_bytes()));
        let vu = decode(numeric_block(PhysicalType::U64, nulls, pa.to_le_bytes(), pb.to_le_bytes()));
        let vf = decode(numeric_block(PhysicalType::F64, nulls, pa.to_le_bytes(), pb.to_le_bytes()));
        kani::cover!(n0 && !n1, "COVER:first_row_null");
        kani::cover!(!n0 && !n1, "COVER:no_nulls");
        let ok = match (&vi, &vu, &vf) {
            (Some(vi), Some(vu), Some(vf)) => {
                vi.len() == 2 && vu.len() == 2 && vf.len() == 2
                && vi.get_i64_at(0) == if n0 { None } else { Some(a as i64) } && vi.get_i64_at(1) == if n1 { None } else { Some(b as i64) }
                && vu.get_u64_at(0) == if n0 { None } else { Some(a) } && vu.get_u64_at(1) == if n1 { None } else { Some(b) }
                && vf.get_f64_at(0).map(|f| f.to_bits()) == if n0 { None } else { Some(a) }
                && vf.get_f64_at(1).map(|f| f.to_bits()) == if n1 { None } else { Some(b) }
            }
            _ => false,
        };
        assert!(ok, "OBL:C07.block_decode.numeric_rows_come_back");
    }

    #[kani::proof]
    #[kani::stub(alloc::fmt::format, fmt_stub)]
    #[kani::unwind(12)]
    fn decode_bool_block() {
        let nulls: u8 = kani::any();
        let bits: u8 = kani::any();
        let any_nulls = nulls & 0b11 != 0;
        let mut buf = Vec::new();
        ColumnBlockHeader::new(PhysicalType::Bool, any_nulls, 2, if any_nulls { 1 } else { 0 }).write_to(&mut buf);
        if any_nulls { buf.push(nulls & 0b11); }
        buf.push(bits & 0b11);
        let v = decode(buf);
        kani::cover!(any_nulls, "COVER:with_nulls");
        let ok = match &v {
            Some(v) => v.len() == 2
                && v.get_bool_at(0) == if nulls & 1 != 0 { None } else { Some(bits & 1 != 0) }
                && v.get_bool_at(1) == if nulls & 2 != 0 { None } else { Some(bits & 2 != 0) },
            None => false,
        };
        assert!(ok, "OBL:C07.block_decode.bool_rows_come_back");
    }

    #[kani::proof]
    #[kani::stub(alloc::fmt::format, fmt_stub)]
    #[kani::unwind(12)]
    fn decode_varbytes_block() {
        let (l0, l1): (usize, usize) = (kani::any(), kani::any());
        kani::assume(l0 <= 2 && l1 <= 2);
        let data: [u8; 4] = kani::any();
        kani::assume(data[0] < 0x80 && data[1] < 0x80 && data[2] < 0x80 && data[3] < 0x80);
        let mut buf = Vec::new();
        ColumnBlockHeader::new(PhysicalType::VarBytes, false, 2, 8).write_to(&mut buf);
        buf.extend_from_slice(&(l0 as u32).to_le_bytes());
        buf.extend_from_slice(&(l1 as u32).to_le_bytes());
        buf.extend_from_slice(&data[..l0]);
        buf.extend_from_slice(&data[2..2 + l1]);
        let v = decode(buf);
        kani::cover!(l0 == 0 && l1 == 2, "COVER:empty_then_two");
        let ok = match &v {
            Some(v) => v.len() == 2
                && v.get_str_at(0).map(|s| s.as_bytes() == &data[..l0]).unwrap_or(false)
                && v.get_str_at(1).map(|s| s.as_bytes() == &data[2..2 + l1]).unwrap_or(false),
            None => false,
        };
        assert!(ok, "OBL:C07.block_decode.string_rows_come_back");
    }
