//@unit c07_block_decode
//@property C07
//@file src/engine/core/column/reader/decoders.rs
//@needs pub fn decoder_for(phys: PhysicalType) -> &'static dyn ColumnDecoder {
//@function src/engine/core/column/reader/view.rs::parse
//@function src/engine/core/column/reader/view.rs::align_up
//@function src/engine/core/column/reader/decoders.rs::build_values
//@function src/engine/core/column/reader/decoders.rs::decoder_for
//@harness name=decode_i64_block kind=bounded bound="2 rows; block laid out as ColumnGroupBuilder::finish writes it (header, null bitmap or pad, payload)" tier=thorough timeout=1800 stubs=yes gate=yes
//@harness name=decode_u64_block kind=bounded bound="2 rows; block laid out as ColumnGroupBuilder::finish writes it (header, null bitmap or pad, payload)" tier=manual timeout=1800 stubs=yes gate=yes
//@harness name=decode_f64_block kind=bounded bound="2 rows; block laid out as ColumnGroupBuilder::finish writes it (header, null bitmap or pad, payload)" tier=manual timeout=1800 stubs=yes gate=yes
//@harness name=decode_bool_block kind=bounded bound="2 rows" tier=manual timeout=1800 stubs=yes gate=yes
//@harness name=decode_varbytes_block kind=bounded bound="2 rows of 0..=2 bytes each" tier=thorough timeout=1800 stubs=yes gate=yes
//@obligation C07.block_decode.numeric_rows_come_back : parse -> decoder_for(tag) -> typed getters return every stored i64 / u64 / f64 of a block in the writer's layout bit for bit, nulls as None [bounded; the writer half (HashMap-keyed) is transcribed, not executed]
//@obligation C07.block_decode.bool_rows_come_back : same for a bool block (value bitset in the payload, null bitset in aux)
//@obligation C07.block_decode.string_rows_come_back : same for a VarBytes block: each row's bytes come back unchanged, including empty strings

    fn fmt_stub(_args: std::fmt::Arguments<'_>) -> String { String::new() }

    /// the layout written by ColumnGroupBuilder::finish for a fixed-width numeric column of 2 rows: for 2 rows the
    /// aux section is 4 bytes in both cases ([bitmap, 0, 0, 0] with nulls, 4 pad bytes without), so every offset is
    /// concrete and only the flag bit, the bitmap byte and the 16 payload bytes are symbolic
    fn numeric_block(phys: PhysicalType, nulls: u8, r0: [u8; 8], r1: [u8; 8]) -> Vec<u8> {
        let any_nulls = nulls & 0b11 != 0;
        let mut buf = Vec::with_capacity(32);
        ColumnBlockHeader::new(phys, any_nulls, 2, 4).write_to(&mut buf);
        buf.push(if any_nulls { nulls & 0b11 } else { 0 });
        buf.push(0); buf.push(0); buf.push(0);
        buf.extend_from_slice(&r0);
        buf.extend_from_slice(&r1);
        buf
    }

    fn decode(bytes: Vec<u8>) -> Option<std::mem::ManuallyDrop<ColumnValues>> {
        // the view borrows a plain copy of the bytes (same content as the Arc'd block the values will read from)
        let copy = std::mem::ManuallyDrop::new(bytes.clone());
        let block = Arc::new(DecompressedBlock::from_bytes(bytes));
        let view = match ColumnBlockView::parse(&copy[..]) { Ok(v) => v, Err(_) => return None };
        // the static decoder table (decoder_for) is replaced by a direct match on the parsed tag: same decoders, no `dyn`
        let r = match view.phys {
            PhysicalType::I64 => I64Decoder.build_values(&view, 2, block.clone()),
            PhysicalType::U64 => U64Decoder.build_values(&view, 2, block.clone()),
            PhysicalType::F64 => F64Decoder.build_values(&view, 2, block.clone()),
            PhysicalType::Bool => BoolDecoder.build_values(&view, 2, block.clone()),
            _ => VarBytesDecoder.build_values(&view, 2, block.clone()),
        };
        std::mem::forget(block);
        match r { Ok(v) => Some(std::mem::ManuallyDrop::new(v)), Err(_) => None }
    }

    macro_rules! numeric_harness { ($name:ident, $phys:expr, $get:expr) => {
        #[kani::proof]
        #[kani::stub(alloc::fmt::format, fmt_stub)]
        #[kani::unwind(12)]
        fn $name() {
            let nulls: u8 = kani::any();
            let (a, b): (u64, u64) = (kani::any(), kani::any());
            let n0 = nulls & 1 != 0;
            let n1 = nulls & 2 != 0;
            // the writer stores 0 in the payload of a null row
            let (pa, pb) = (if n0 { 0 } else { a }, if n1 { 0 } else { b });
            let v = decode(numeric_block($phys, nulls, pa.to_le_bytes(), pb.to_le_bytes()));
            kani::cover!(n0 && !n1, "COVER:first_row_null");
            kani::cover!(!n0 && !n1, "COVER:no_nulls");
            let get: fn(&ColumnValues, usize) -> Option<u64> = $get;
            let ok = match &v {
                Some(v) => v.len() == 2 && get(v, 0) == if n0 { None } else { Some(a) } && get(v, 1) == if n1 { None } else { Some(b) },
                None => false,
            };
            assert!(ok, "OBL:C07.block_decode.numeric_rows_come_back");
        }
    }; }
    numeric_harness!(decode_i64_block, PhysicalType::I64, |v, i| v.get_i64_at(i).map(|x| x as u64));
    numeric_harness!(decode_u64_block, PhysicalType::U64, |v, i| v.get_u64_at(i));
    numeric_harness!(decode_f64_block, PhysicalType::F64, |v, i| v.get_f64_at(i).map(|x| x.to_bits()));

    #[kani::proof]
    #[kani::stub(alloc::fmt::format, fmt_stub)]
    #[kani::unwind(12)]
    fn decode_bool_block() {
        let nulls: u8 = kani::any();
        let bits: u8 = kani::any();
        let any_nulls = nulls & 0b11 != 0;
        let mut buf = Vec::new();
        ColumnBlockHeader::new(PhysicalType::Bool, any_nulls, 2, if any_nulls { 1 } else { 0 }).write_to(&mut buf);
        if any_nulls { buf.push(nulls & 0b11); }
        buf.push(bits & 0b11);
        let v = decode(buf);
        kani::cover!(any_nulls, "COVER:with_nulls");
        let ok = match &v {
            Some(v) => v.len() == 2
                && v.get_bool_at(0) == if nulls & 1 != 0 { None } else { Some(bits & 1 != 0) }
                && v.get_bool_at(1) == if nulls & 2 != 0 { None } else { Some(bits & 2 != 0) },
            None => false,
        };
        assert!(ok, "OBL:C07.block_decode.bool_rows_come_back");
    }

    #[kani::proof]
    #[kani::stub(alloc::fmt::format, fmt_stub)]
    #[kani::unwind(12)]
    fn decode_varbytes_block() {
        let (l0, l1): (usize, usize) = (kani::any(), kani::any());
        kani::assume(l0 <= 2 && l1 <= 2);
        let data: [u8; 4] = kani::any();
        kani::assume(data[0] < 0x80 && data[1] < 0x80 && data[2] < 0x80 && data[3] < 0x80);
        let mut buf = Vec::new();
        ColumnBlockHeader::new(PhysicalType::VarBytes, false, 2, 8).write_to(&mut buf);
        buf.extend_from_slice(&(l0 as u32).to_le_bytes());
        buf.extend_from_slice(&(l1 as u32).to_le_bytes());
        buf.extend_from_slice(&data[..l0]);
        buf.extend_from_slice(&data[2..2 + l1]);
        let v = decode(buf);
        kani::cover!(l0 == 0 && l1 == 2, "COVER:empty_then_two");
        let ok = match &v {
            Some(v) => v.len() == 2
                && v.get_str_at(0).map(|s| s.as_bytes() == &data[..l0]).unwrap_or(false)
                && v.get_str_at(1).map(|s| s.as_bytes() == &data[2..2 + l1]).unwrap_or(false),
            None => false,
        };
        assert!(ok, "OBL:C07.block_decode.string_rows_come_back");
    }
