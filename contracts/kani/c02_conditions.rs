//@unit c02_conditions
//@property C02
//@file src/engine/core/filter/condition.rs
//@rtrace src/engine/core/filter/condition.rs
//@needs pub fn evaluate_scalar(&self, lhs: i64) -> bool {
//@needs fn evaluate_at(&self, accessor: &dyn FieldAccessor, index: usize) -> bool {
//@needs fn evaluate_event_direct(&self, accessor: &DirectEventAccessor) -> bool {
//@function src/engine/core/filter/condition.rs::evaluate_scalar
//@function src/engine/core/filter/condition.rs::evaluate_at
//@function src/engine/core/filter/condition.rs::evaluate_event_direct
//@function src/engine/core/filter/direct_event_accessor.rs::get_field_as_i64
//@harness name=scalar_all_ops kind=complete tier=quick timeout=600
//@harness name=at_i64_cell kind=complete tier=quick timeout=600
//@harness name=at_u64_cell kind=complete tier=quick timeout=600
//@harness name=at_f64_cell kind=complete tier=quick timeout=600
//@harness name=tier_independence_i64 kind=complete tier=quick timeout=900
//@harness name=tier_independence_f64 kind=complete tier=quick timeout=900
//@harness name=tier_independence_in_f64 kind=bounded bound="IN list of 1 literal (HashSet<i64> with the hasher stubbed to fixed keys)" tier=thorough timeout=1800 stubs=yes gate=yes
//@harness name=string_condition_eq_neq kind=bounded bound="cell and literal of exactly 2 symbolic ASCII bytes" tier=quick timeout=900
//@harness name=string_condition_on_bool_cell kind=complete tier=quick timeout=900
//@harness name=logical_connectives kind=complete tier=quick timeout=900
//@obligation C02.conditions.evaluate_scalar.is_comparison : for all lhs, literal and the six comparison operators the result is `lhs op literal` in Z
//@obligation C02.conditions.evaluate_at.i64_cell : an i64 cell is selected iff `cell op literal` holds
//@obligation C02.conditions.evaluate_at.u64_cell : a u64 cell is selected iff `cell op literal` holds in Z (also for negative literals)
//@obligation C02.conditions.evaluate_at.f64_cell : a non-NaN f64 cell is selected iff `cell op literal` holds (literal exactly representable, |literal| <= 2^53)
//@obligation C02.conditions.tier_independence.i64 : in-memory evaluation (evaluate_event_direct on the event payload) equals on-disk evaluation (evaluate_at on the column cell) for integer values
//@obligation C02.conditions.tier_independence.f64 : same for float values
//@obligation C02.conditions.tier_independence.in_f64 : IN over a float value answers the same in memory and on disk [bounded, gate]
//@obligation C02.conditions.string.eq_neq : `=` / `!=` on a string cell select exactly the rows whose cell equals / differs from the literal (on-disk evaluator; the in-memory string path did not finish in 600 s and is not decided) [bounded]
//@obligation C02.conditions.string.bool_cell : a boolean literal arrives as the text `true` / `false`; on a typed boolean column `=` / `!=` select exactly the rows whose cell spells / does not spell the literal, and a null cell is never selected (guards /repo fix: bool equality returned nothing once flushed)
//@obligation C02.conditions.logical.and_or_not : And / Or / Not over leaf conditions equal the boolean connectives of the leaves' answers

    use crate::engine::core::Event;
    use crate::engine::types::ScalarValue;
    use std::collections::BTreeMap;

    /// one-row accessor: the cell is exposed through exactly the getter of its physical kind, as
    /// ColumnValues does (typed_u64 -> get_u64_at only, typed_i64 -> get_i64_at, typed_f64 -> get_f64_at)
    struct OneCell { kind: u8, u: u64, i: i64, f: f64 }
    impl FieldAccessor for OneCell {
        fn get_str_at(&self, _field: &str, _index: usize) -> Option<&str> { None }
        fn get_i64_at(&self, _field: &str, _index: usize) -> Option<i64> { if self.kind == 1 { Some(self.i) } else { None } }
        fn get_u64_at(&self, _field: &str, _index: usize) -> Option<u64> { if self.kind == 0 { Some(self.u) } else { None } }
        fn get_f64_at(&self, _field: &str, _index: usize) -> Option<f64> { if self.kind == 2 { Some(self.f) } else { None } }
        fn event_count(&self) -> usize { 1 }
    }

    fn any_op() -> (CompareOp, u8) {
        let k: u8 = kani::any();
        kani::assume(k < 6);
        (match k { 0 => CompareOp::Gt, 1 => CompareOp::Gte, 2 => CompareOp::Lt, 3 => CompareOp::Lte, 4 => CompareOp::Eq, _ => CompareOp::Neq }, k)
    }

    /// the comparison in Z, written from the statement
    fn math(k: u8, lhs: i128, rhs: i128) -> bool {
        match k { 0 => lhs > rhs, 1 => lhs >= rhs, 2 => lhs < rhs, 3 => lhs <= rhs, 4 => lhs == rhs, _ => lhs != rhs }
    }
    fn math_f(k: u8, lhs: f64, rhs: f64) -> bool {
        match k { 0 => lhs > rhs, 1 => lhs >= rhs, 2 => lhs < rhs, 3 => lhs <= rhs, 4 => lhs == rhs, _ => lhs != rhs }
    }

    #[kani::proof]
    fn scalar_all_ops() {
        let (op, k) = any_op();
        let (lhs, v): (i64, i64) = (kani::any(), kani::any());
        let c = NumericCondition::new(String::from("x"), op, v);
        kani::cover!(k == 5 && lhs != v, "COVER:neq");
        assert!(c.evaluate_scalar(lhs) == math(k, lhs as i128, v as i128), "OBL:C02.conditions.evaluate_scalar.is_comparison");
    }

    #[kani::proof]
    fn at_i64_cell() {
        let (op, k) = any_op();
        let (cell, v): (i64, i64) = (kani::any(), kani::any());
        let c = NumericCondition::new(String::from("x"), op, v);
        let acc = OneCell { kind: 1, u: 0, i: cell, f: 0.0 };
        kani::cover!(cell < 0 && v > 0, "COVER:sign_mix");
        assert!(c.evaluate_at(&acc, 0) == math(k, cell as i128, v as i128), "OBL:C02.conditions.evaluate_at.i64_cell");
    }

    #[kani::proof]
    fn at_u64_cell() {
        let (op, k) = any_op();
        let cell: u64 = kani::any();
        let v: i64 = kani::any();
        let c = NumericCondition::new(String::from("x"), op, v);
        let acc = OneCell { kind: 0, u: cell, i: 0, f: 0.0 };
        kani::cover!(v >= 0 && cell > i64::MAX as u64, "COVER:big_cell");
        let post = c.evaluate_at(&acc, 0) == math(k, cell as i128, v as i128);
        // known finding C02-u64-negative-literal: `>`, `>=`, `!=` against a negative literal answer false
        let known_class = v < 0 && (k == 0 || k == 1 || k == 5);
        kani::cover!(known_class && !post, "KNOWN:C02-u64-negative-literal");
        assert!(known_class || post, "OBL:C02.conditions.evaluate_at.u64_cell");
    }

    #[kani::proof]
    fn at_f64_cell() {
        let (op, k) = any_op();
        let cell: f64 = kani::any();
        let v: i64 = kani::any();
        kani::assume(!cell.is_nan());
        kani::assume(v >= -(1i64 << 53) && v <= (1i64 << 53));
        let c = NumericCondition::new(String::from("x"), op, v);
        let acc = OneCell { kind: 2, u: 0, i: 0, f: cell };
        kani::cover!(cell > 0.25 && cell < 0.75, "COVER:fractional_cell");
        assert!(c.evaluate_at(&acc, 0) == math_f(k, cell, v as f64), "OBL:C02.conditions.evaluate_at.f64_cell");
    }

    fn event_with(value: ScalarValue) -> Event {
        let mut payload = BTreeMap::new();
        payload.insert(String::from("x"), value);
        Event { event_type: String::from("e"), context_id: String::from("c"), timestamp: 0, id: Default::default(), payload }
    }

    #[kani::proof]
    #[kani::unwind(4)]
    fn tier_independence_i64() {
        let (op, _k) = any_op();
        let (cell, v): (i64, i64) = (kani::any(), kani::any());
        let c = NumericCondition::new(String::from("x"), op, v);
        let ev = std::mem::ManuallyDrop::new(event_with(ScalarValue::Int64(cell)));
        let mem = c.evaluate_event_direct(&DirectEventAccessor::new(&ev));
        let disk = c.evaluate_at(&OneCell { kind: 1, u: 0, i: cell, f: 0.0 }, 0);
        kani::cover!(mem, "COVER:selected");
        kani::cover!(!mem, "COVER:rejected");
        assert!(mem == disk, "OBL:C02.conditions.tier_independence.i64");
    }

    #[kani::proof]
    #[kani::unwind(4)]
    fn tier_independence_f64() {
        let (op, _k) = any_op();
        let cell: f64 = kani::any();
        let v: i64 = kani::any();
        kani::assume(cell.is_finite());
        let c = NumericCondition::new(String::from("x"), op, v);
        let ev = std::mem::ManuallyDrop::new(event_with(ScalarValue::Float64(cell)));
        let mem = c.evaluate_event_direct(&DirectEventAccessor::new(&ev));
        let disk = c.evaluate_at(&OneCell { kind: 2, u: 0, i: 0, f: cell }, 0);
        kani::cover!(disk, "COVER:selected_on_disk");
        assert!(mem == disk, "OBL:C02.conditions.tier_independence.f64");
    }

    #[kani::proof]
    #[kani::unwind(4)]
    fn logical_connectives() {
        let (op1, k1) = any_op();
        let (op2, k2) = any_op();
        let (cell, v1, v2): (i64, i64, i64) = (kani::any(), kani::any(), kani::any());
        let acc = OneCell { kind: 1, u: 0, i: cell, f: 0.0 };
        let (a, b) = (math(k1, cell as i128, v1 as i128), math(k2, cell as i128, v2 as i128));
        let mk = |lop: LogicalOp| {
            let leaves: Vec<Box<dyn Condition>> = vec![
                Box::new(NumericCondition::new(String::from("x"), op1, v1)),
                Box::new(NumericCondition::new(String::from("x"), op2, v2)),
            ];
            std::mem::ManuallyDrop::new(LogicalCondition::new(leaves, lop))
        };
        let and = mk(LogicalOp::And).evaluate_at(&acc, 0);
        let or = mk(LogicalOp::Or).evaluate_at(&acc, 0);
        let not = mk(LogicalOp::Not).evaluate_at(&acc, 0); // Not looks at its single (first) child
        kani::cover!(a && !b, "COVER:mixed");
        assert!(and == (a && b) && or == (a || b) && not == !a, "OBL:C02.conditions.logical.and_or_not");
    }

    fn fixed_random_state() -> std::hash::RandomState {
        // harness-only: fixed hasher keys so that CBMC can execute a HashSet (two u64 words)
        unsafe { std::mem::transmute::<(u64, u64), std::hash::RandomState>((0x0123_4567_89ab_cdef, 0x0fed_cba9_8765_4321)) }
    }

    #[kani::proof]
    #[kani::stub(std::hash::RandomState::new, fixed_random_state)]
    #[kani::unwind(6)]
    fn tier_independence_in_f64() {
        let cell: f64 = kani::any();
        let v: i64 = kani::any();
        kani::assume(cell.is_finite());
        let c = std::mem::ManuallyDrop::new(InNumericCondition::new(String::from("x"), vec![v]));
        let ev = std::mem::ManuallyDrop::new(event_with(ScalarValue::Float64(cell)));
        let mem = c.evaluate_event_direct(&DirectEventAccessor::new(&ev));
        let disk = c.evaluate_at(&OneCell { kind: 2, u: 0, i: 0, f: cell }, 0);
        kani::cover!(disk, "COVER:selected_on_disk");
        assert!(mem == disk, "OBL:C02.conditions.tier_independence.in_f64");
    }

    struct StrCell<'a>(&'a str);
    impl<'a> FieldAccessor for StrCell<'a> {
        fn get_str_at(&self, _field: &str, _index: usize) -> Option<&str> { Some(self.0) }
        fn get_i64_at(&self, _field: &str, _index: usize) -> Option<i64> { None }
        fn get_u64_at(&self, _field: &str, _index: usize) -> Option<u64> { None }
        fn get_f64_at(&self, _field: &str, _index: usize) -> Option<f64> { None }
        fn event_count(&self) -> usize { 1 }
    }

    struct BoolCell(Option<bool>);
    impl FieldAccessor for BoolCell {
        fn get_str_at(&self, _field: &str, _index: usize) -> Option<&str> { None }   // a typed boolean column has no string view
        fn get_i64_at(&self, _field: &str, _index: usize) -> Option<i64> { None }
        fn get_u64_at(&self, _field: &str, _index: usize) -> Option<u64> { None }
        fn get_f64_at(&self, _field: &str, _index: usize) -> Option<f64> { None }
        fn get_bool_at(&self, _field: &str, _index: usize) -> Option<bool> { self.0 }
        fn event_count(&self) -> usize { 1 }
    }

    #[kani::proof]
    #[kani::unwind(8)]
    fn string_condition_on_bool_cell() {
        let cell: Option<bool> = kani::any();
        let lit_true: bool = kani::any();
        let neq: bool = kani::any();
        let lit = String::from(if lit_true { "true" } else { "false" });
        let cond = std::mem::ManuallyDrop::new(StringCondition::new(String::from("x"), if neq { CompareOp::Neq } else { CompareOp::Eq }, lit));
        let disk = cond.evaluate_at(&BoolCell(cell), 0);
        kani::cover!(cell == Some(true) && lit_true && !neq, "COVER:true_equals_true");
        kani::cover!(cell.is_none(), "COVER:null_cell");
        let expected = match cell { None => false, Some(b) => (b == lit_true) != neq };
        assert!(disk == expected, "OBL:C02.conditions.string.bool_cell");
    }

    #[kani::proof]
    #[kani::unwind(5)]
    fn string_condition_eq_neq() {
        let (c, v): ([u8; 2], [u8; 2]) = (kani::any(), kani::any());
        kani::assume(c[0] < 0x80 && c[1] < 0x80 && v[0] < 0x80 && v[1] < 0x80);
        let neq: bool = kani::any();
        let cell = unsafe { String::from_utf8_unchecked(c.to_vec()) };
        let lit = unsafe { String::from_utf8_unchecked(v.to_vec()) };
        let cond = std::mem::ManuallyDrop::new(StringCondition::new(String::from("x"), if neq { CompareOp::Neq } else { CompareOp::Eq }, lit));
        let disk = cond.evaluate_at(&StrCell(cell.as_str()), 0);
        std::mem::forget(cell);
        kani::cover!(c == v, "COVER:equal");
        kani::cover!(c != v && neq, "COVER:differs");
        assert!(disk == ((c == v) != neq), "OBL:C02.conditions.string.eq_neq");
    }
