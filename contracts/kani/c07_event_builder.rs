//@unit c07_event_builder
//@property C07
//@file src/engine/core/event/event_builder.rs
//@needs pub fn add_field_u64(&mut self, field: &str, value: u64) {
//@needs pub fn add_field_i64(&mut self, field: &str, value: i64) {
//@function src/engine/core/event/event_builder.rs::add_field_i64
//@function src/engine/core/event/event_builder.rs::add_field_u64
//@function src/engine/core/event/event_builder.rs::add_field_f64
//@function src/engine/core/event/event_builder.rs::add_field_bool
//@function src/engine/core/event/event_builder.rs::add_field_null
//@harness name=typed_cells_reach_the_payload kind=complete tier=quick timeout=1200 stubs=yes
//@harness name=core_fields_from_typed_cells kind=complete tier=quick timeout=900
//@obligation C07.event_builder.typed_cells_reach_the_payload : a typed column cell read back from disk enters the event payload as the same value: i64 -> Int64(v), u64 -> Int64(v) or (above i64::MAX) a decimal string, finite f64 -> Float64 (same bits), bool -> Boolean, null -> Null, for all values
//@obligation C07.event_builder.core_fields_from_typed_cells : the typed timestamp / event_id cells set the event's timestamp and id to exactly the stored u64 (RETURN never alters the core fields)

    fn fmt_stub(_args: std::fmt::Arguments<'_>) -> String { String::new() }

    #[kani::proof]
    #[kani::stub(alloc::fmt::format, fmt_stub)]
    #[kani::unwind(6)]
    fn typed_cells_reach_the_payload() {
        let (i, u, f, b): (i64, u64, f64, bool) = (kani::any(), kani::any(), kani::any(), kani::any());
        kani::assume(f.is_finite());
        // one builder per kind: a BTreeMap with a single concrete key is what CBMC can afford
        let mut bi = EventBuilder::new(); bi.add_field_i64("x", i);
        let mut bu = EventBuilder::new(); bu.add_field_u64("x", u);
        let mut bf = EventBuilder::new(); bf.add_field_f64("x", f);
        let mut bb = EventBuilder::new(); bb.add_field_bool("x", b);
        let mut bn = EventBuilder::new(); bn.add_field_null("x");
        kani::cover!(u > i64::MAX as u64, "COVER:big_unsigned");
        let ok = matches!(bi.payload.get("x"), Some(ScalarValue::Int64(x)) if *x == i)
            && (match bu.payload.get("x") {
                Some(ScalarValue::Int64(x)) => *x >= 0 && *x as u64 == u,
                Some(ScalarValue::Utf8(_)) => u > i64::MAX as u64, // decimal text: std formatting, stubbed here
                _ => false,
            })
            && matches!(bf.payload.get("x"), Some(ScalarValue::Float64(x)) if x.to_bits() == f.to_bits())
            && matches!(bb.payload.get("x"), Some(ScalarValue::Boolean(x)) if *x == b)
            && matches!(bn.payload.get("x"), Some(ScalarValue::Null));
        std::mem::forget(bi); std::mem::forget(bu); std::mem::forget(bf); std::mem::forget(bb); std::mem::forget(bn);
        assert!(ok, "OBL:C07.event_builder.typed_cells_reach_the_payload");
    }

    #[kani::proof]
    #[kani::unwind(12)]
    fn core_fields_from_typed_cells() {
        let (ts, id): (u64, u64) = (kani::any(), kani::any());
        let mut b = EventBuilder::new();
        b.add_field_u64("timestamp", ts);
        b.add_field_u64("event_id", id);
        kani::cover!(id > i64::MAX as u64, "COVER:id_with_top_bit");
        let ok = b.timestamp == ts && b.event_id.raw() == id && b.payload.is_empty();
        std::mem::forget(b);
        assert!(ok, "OBL:C07.event_builder.core_fields_from_typed_cells");
    }
