//@unit c09_finalize
//@property C09
//@file src/command/handlers/query/merge/aggregate_stream.rs
//@rtrace src/command/handlers/query/merge/aggregate_stream.rs
//@needs pub fn agg_state_to_scalar(
//@function src/command/handlers/query/merge/aggregate_stream.rs::agg_state_to_scalar
//@harness name=finalize_count_total_avg kind=complete tier=quick timeout=900 stubs=yes
//@harness name=finalize_avg kind=bounded bound="|sum| < 2^24, 0 <= count < 2^12" tier=thorough timeout=2400 stubs=yes gate=yes
//@harness name=finalize_min_max_numeric kind=complete tier=quick timeout=900 stubs=yes
//@obligation C09.finalize.count_total : the merged partial state is reported as COUNT = count and TOTAL = sum, for all values
//@obligation C09.finalize.avg_is_sum_over_count : AVG = sum / count (0 for an empty group) [bounded, gate: float division]
//@obligation C09.finalize.min_max_numeric : MIN / MAX report the merged numeric extreme when there is one

    fn fmt_stub(_args: std::fmt::Arguments<'_>) -> String { String::new() }

    #[kani::proof]
    #[kani::stub(alloc::fmt::format, fmt_stub)]
    #[kani::unwind(4)]
    fn finalize_count_total_avg() {
        let (sum, count): (i64, i64) = (kani::any(), kani::any());
        let f = String::from("f");
        let c = AggregateStreamMerger::agg_state_to_scalar(&AggState::CountAll { count }, &AggregateOpSpec::CountAll);
        let cf = std::mem::ManuallyDrop::new(AggregateOpSpec::CountField { field: f.clone() });
        let c2 = AggregateStreamMerger::agg_state_to_scalar(&AggState::CountAll { count }, &cf);
        let tf = std::mem::ManuallyDrop::new(AggregateOpSpec::Total { field: f.clone() });
        let t = AggregateStreamMerger::agg_state_to_scalar(&AggState::Sum { sum }, &tf);
        std::mem::forget(f);
        kani::cover!(count == 0, "COVER:empty_group");
        let ok = matches!(&c, Ok(ScalarValue::Int64(x)) if *x == count)
            && matches!(&c2, Ok(ScalarValue::Int64(x)) if *x == count)
            && matches!(&t, Ok(ScalarValue::Int64(x)) if *x == sum);
        std::mem::forget(c); std::mem::forget(c2); std::mem::forget(t);
        assert!(ok, "OBL:C09.finalize.count_total");
    }

    #[kani::proof]
    #[kani::stub(alloc::fmt::format, fmt_stub)]
    #[kani::unwind(4)]
    fn finalize_avg() {
        let (sum, count): (i64, i64) = (kani::any(), kani::any());
        kani::assume(sum > -(1 << 24) && sum < (1 << 24) && count >= 0 && count < (1 << 12));
        let af = std::mem::ManuallyDrop::new(AggregateOpSpec::Avg { field: String::from("f") });
        let a = AggregateStreamMerger::agg_state_to_scalar(&AggState::Avg { sum, count }, &af);
        kani::cover!(count == 0, "COVER:empty_group");
        kani::cover!(count > 1 && sum % count != 0, "COVER:fractional_average");
        // AVG = sum / count as reals, rounded once to f64 (0 for an empty group): checked by cross-multiplication
        let ok = match &a {
            Ok(ScalarValue::Float64(x)) => if count == 0 { *x == 0.0 } else {
                let back = *x * (count as f64);
                (back - sum as f64).abs() <= 1e-6 * (1.0 + (sum as f64).abs())
            },
            _ => false,
        };
        std::mem::forget(a);
        assert!(ok, "OBL:C09.finalize.avg_is_sum_over_count");
    }

    #[kani::proof]
    #[kani::stub(alloc::fmt::format, fmt_stub)]
    #[kani::unwind(4)]
    fn finalize_min_max_numeric() {
        let n: i64 = kani::any();
        let f = String::from("f");
        let mn = std::mem::ManuallyDrop::new(AggregateOpSpec::Min { field: f.clone() });
        let mx = std::mem::ManuallyDrop::new(AggregateOpSpec::Max { field: f.clone() });
        let a = AggregateStreamMerger::agg_state_to_scalar(&std::mem::ManuallyDrop::new(AggState::Min { min_num: Some(n), min_str: None }), &mn);
        let b = AggregateStreamMerger::agg_state_to_scalar(&std::mem::ManuallyDrop::new(AggState::Max { max_num: Some(n), max_str: None }), &mx);
        std::mem::forget(f);
        kani::cover!(n < 0, "COVER:negative");
        let ok = matches!(&a, Ok(ScalarValue::Int64(x)) if *x == n) && matches!(&b, Ok(ScalarValue::Int64(x)) if *x == n);
        std::mem::forget(a); std::mem::forget(b);
        assert!(ok, "OBL:C09.finalize.min_max_numeric");
    }
