//@unit c14_flush_progress
//@property C14
//@file src/engine/shard/flush_progress.rs
//@needs pub fn mark_completed(&self, id: u64) {
//@needs pub fn next_id(&self) -> u64 {
//@function src/engine/shard/flush_progress.rs::next_id
//@function src/engine/shard/flush_progress.rs::snapshot
//@function src/engine/shard/flush_progress.rs::mark_completed
//@function src/engine/shard/flush_progress.rs::completed
//@harness name=flush_tickets_sequential kind=complete tier=quick timeout=600
//@obligation C14.flush_progress.tickets_and_completion_monotone : (sequential semantics) flush tickets are consecutive and strictly increasing, the completed mark is the maximum of the ids reported so far and never decreases -- so 'wait until completed >= snapshot' (used before a SHOW / a read of flushed data) cannot be satisfied by an older flush

    #[kani::proof]
    #[kani::unwind(4)]
    fn flush_tickets_sequential() {
        let s0: u64 = kani::any();
        let c0: u64 = kani::any();
        kani::assume(s0 < u64::MAX - 2);
        let p = FlushProgress { submitted: AtomicU64::new(s0), completed: AtomicU64::new(c0) };
        let t1 = p.next_id();
        let t2 = p.next_id();
        let snap = p.snapshot();
        let (a, b): (u64, u64) = (kani::any(), kani::any());
        p.mark_completed(a);
        let c1 = p.completed();
        p.mark_completed(b);
        let c2 = p.completed();
        let max = |x: u64, y: u64| if x > y { x } else { y };
        kani::cover!(a < c0 && b > c0, "COVER:stale_then_new");
        assert!(t1 == s0 + 1 && t2 == s0 + 2 && snap == t2 && c1 == max(c0, a) && c2 == max(c1, b) && c2 >= c1 && c1 >= c0,
            "OBL:C14.flush_progress.tickets_and_completion_monotone");
    }
