//@unit c14_frame_header
//@property C14
//@file src/engine/materialize/store/frame/header.rs
//@needs pub fn write_to<W: Write>(&self, mut writer: W) -> Result<(), MaterializationError> {
//@needs pub fn read_from<R: Read>(mut reader: R) -> Result<Self, MaterializationError> {
//@function src/engine/materialize/store/frame/header.rs::write_to
//@function src/engine/materialize/store/frame/header.rs::read_from
//@harness name=frame_header_roundtrip kind=complete tier=quick timeout=900
//@harness name=frame_header_short_input kind=complete tier=quick timeout=900
//@obligation C14.frame_header.write_read_identity : every stored-frame header (row/column counts, min/max timestamp, max event id - the watermark inputs - lengths, checksum) is read back field for field; exactly 56 bytes are written
//@obligation C14.frame_header.short_input_rejected : fewer than 56 bytes are rejected (no panic, no partially filled header)

    #[kani::proof]
    #[kani::unwind(60)]
    fn frame_header_roundtrip() {
        let h = FrameHeader {
            schema_hash: kani::any(), row_count: kani::any(), column_count: kani::any(), min_timestamp: kani::any(),
            max_timestamp: kani::any(), max_event_id: kani::any(), uncompressed_len: kani::any(), compressed_len: kani::any(),
            null_bitmap_len: kani::any(), checksum: kani::any(),
        };
        let mut buf: Vec<u8> = Vec::new();
        let w = h.write_to(&mut buf).is_ok();
        let len_ok = buf.len() == 56;
        let r = FrameHeader::read_from(&buf[..]);
        kani::cover!(r.is_ok(), "COVER:parsed");
        let same = match &r {
            Ok(g) => g.schema_hash == h.schema_hash && g.row_count == h.row_count && g.column_count == h.column_count
                && g.min_timestamp == h.min_timestamp && g.max_timestamp == h.max_timestamp && g.max_event_id == h.max_event_id
                && g.uncompressed_len == h.uncompressed_len && g.compressed_len == h.compressed_len
                && g.null_bitmap_len == h.null_bitmap_len && g.checksum == h.checksum,
            Err(_) => false,
        };
        std::mem::forget(r);
        assert!(w && len_ok && same, "OBL:C14.frame_header.write_read_identity");
    }

    #[kani::proof]
    #[kani::unwind(60)]
    fn frame_header_short_input() {
        let bytes: [u8; 55] = kani::any();
        let len: usize = kani::any();
        kani::assume(len <= 55);
        let r = FrameHeader::read_from(&bytes[..len]);
        kani::cover!(len == 55, "COVER:one_byte_short");
        let rejected = r.is_err();
        std::mem::forget(r);
        assert!(rejected, "OBL:C14.frame_header.short_input_rejected");
    }
