//@unit c02_builder_stubs
//@property C02
//@file src/engine/core/filter/condition_evaluator.rs
//@rtrace src/engine/core/filter/condition_evaluator.rs
//@needs pub fn add_numeric_condition(
//@needs pub fn add_logical_condition(&mut self, condition: LogicalCondition) {

    // Harness-side replacements for the two ConditionEvaluator adders used by add_where_clause on numeric
    // literals.  They do exactly what the real adders do to `conditions` and skip the bookkeeping insertion into
    // `numeric_fields: HashSet<String>` (used only to pre-warm column caches), because CBMC cannot execute a
    // HashSet<String> insertion in useful time (DESIGN §2.4).  Trusted, listed in the evidence.
    pub(crate) fn add_numeric_no_bookkeeping(ev: &mut ConditionEvaluator, field: String, operation: crate::engine::core::filter::condition::CompareOp, value: i64) {
        ev.conditions.push(Box::new(NumericCondition::new(field, operation, value)));
    }
    pub(crate) fn add_logical_no_bookkeeping(ev: &mut ConditionEvaluator, condition: LogicalCondition) {
        ev.conditions.push(Box::new(condition));
    }
