//@unit c18_event_id
//@property C18
//@file src/engine/core/event/event_id.rs
//@needs pub fn next(&mut self, shard_id: u16) -> EventId {
//@needs fn wait_next_millis(last: u64) -> u64 {
//@insert file=src/lib.rs before=<<#![feature(portable_simd)]>>
//| #![cfg_attr(kani, feature(stmt_expr_attributes, proc_macro_hygiene))]
//@end
//@insert file=src/engine/core/event/event_id.rs loop=wait_next_millis#1
//| #[cfg_attr(kani, kani::loop_invariant(true))]
//@end
//@insert file=src/engine/core/event/event_id.rs struct=EventIdGenerator
//| #[cfg_attr(kani, derive(kani::Arbitrary))]
//@end
//@insert file=src/engine/core/event/event_id.rs struct=EventId
//| #[cfg_attr(kani, derive(kani::Arbitrary))]
//@end
//@insert file=src/engine/core/event/event_id.rs fn=EventIdGenerator::next
//| #[cfg_attr(kani, kani::requires(self.sequence <= 0xFFF))]
//| #[cfg_attr(kani, kani::modifies(self))]
//| #[cfg_attr(kani, kani::ensures(|r: &EventId| (self.last_millis > old(self.last_millis) || (self.last_millis == old(self.last_millis) && self.sequence > old(self.sequence))) && self.sequence <= 0xFFF && r.raw() == __verif_c18_event_id::pack(self.last_millis, shard_id, self.sequence)))]
//@end
//@function src/engine/core/event/event_id.rs::next
//@function src/engine/core/event/event_id.rs::wait_next_millis
//@harness name=next_contract kind=complete tier=quick timeout=120 stubs=yes
//@harness name=next_function_contract kind=complete tier=quick timeout=900 stubs=yes contract=C18.event_id.next.function_contract
//@harness name=successive_calls_against_contract kind=complete tier=quick timeout=900
//@harness name=wait_next_millis_contract kind=complete tier=quick timeout=120 stubs=yes
//@obligation C18.event_id.next.state_strictly_increases : (last_millis, sequence) increases lexicographically on every call, for every clock reading
//@obligation C18.event_id.next.sequence_in_range : sequence stays within 12 bits
//@obligation C18.event_id.next.pack_layout : raw == (millis-EPOCH)&(2^42-1) << 22 | (shard & 0x3ff) << 12 | sequence
//@obligation C18.event_id.next.raw_strictly_increases : within the 42-bit clock window and shard < 1024 the new raw id exceeds the id the previous state stood for
//@obligation C18.event_id.next.shard_bits : bits 12..22 of the id equal the shard id
//@obligation C18.event_id.next.function_contract : Kani function contract on the real method (requires sequence <= 0xFFF; modifies *self; ensures state strictly increases lexicographically, sequence <= 0xFFF, id == pack(state, shard)) proved with proof_for_contract for every state, shard and clock reading
//@obligation C18.event_id.successive_calls_increase : a caller making two successive calls, checked against the CONTRACT of next only (stub_verified), gets strictly increasing ids with the same shard tag inside the clock window
//@obligation C18.event_id.wait_next_millis.result_after_last : the value returned is strictly greater than `last` (partial correctness)

    fn clock_any() -> u64 {
        kani::any()
    }

    /// contract of `wait_next_millis`, proved below for partial correctness
    fn wait_stub(last: u64) -> u64 {
        let r: u64 = kani::any();
        kani::assume(r > last);
        r
    }

    const EPOCH: u64 = 1_609_459_200_000;

    pub fn pack(millis: u64, shard: u16, seq: u16) -> u64 {
        ((millis.saturating_sub(EPOCH) & ((1u64 << 42) - 1)) << 22)
            | (((shard as u64) & 0x3ff) << 12)
            | (seq as u64)
    }

    #[kani::proof]
    #[kani::stub(current_millis, clock_any)]
    #[kani::stub(wait_next_millis, wait_stub)]
    fn next_contract() {
        let last0: u64 = kani::any();
        let seq0: u16 = kani::any();
        let shard: u16 = kani::any();
        kani::assume(seq0 <= 0xFFF); // representation invariant, re-established below
        let mut g = EventIdGenerator { last_millis: last0, sequence: seq0 };
        let id = g.next(shard);
        let (last1, seq1) = (g.last_millis, g.sequence);
        kani::cover!(last1 == last0 && seq1 == seq0 + 1, "COVER:same_millis");
        kani::cover!(last1 > last0 && seq1 == 0 && seq0 == 0xFFF, "COVER:wrap_waits");
        kani::cover!(last1 > last0 && seq0 < 0xFFF, "COVER:clock_advanced");
        assert!(last1 > last0 || (last1 == last0 && seq1 > seq0), "OBL:C18.event_id.next.state_strictly_increases");
        assert!(seq1 <= 0xFFF, "OBL:C18.event_id.next.sequence_in_range");
        assert!(id.raw() == pack(last1, shard, seq1), "OBL:C18.event_id.next.pack_layout");
        if last0 >= EPOCH && last1 < EPOCH + (1u64 << 42) && shard < 1024 {
            kani::cover!(true, "COVER:window");
            assert!(id.raw() > pack(last0, shard, seq0), "OBL:C18.event_id.next.raw_strictly_increases");
            assert!((id.raw() >> 12) & 0x3ff == shard as u64, "OBL:C18.event_id.next.shard_bits");
        }
    }

    fn no_yield() {}

    #[kani::proof_for_contract(EventIdGenerator::next)]
    #[kani::stub(current_millis, clock_any)]
    #[kani::stub(wait_next_millis, wait_stub)]
    fn next_function_contract() {
        let mut g: EventIdGenerator = kani::any();
        let shard: u16 = kani::any();
        let _ = g.next(shard);
        kani::cover!(g.sequence == 0, "COVER:sequence_reset");
    }

    /// caller-level step checked against the callee's contract, not its body
    #[kani::proof]
    #[kani::stub_verified(EventIdGenerator::next)]
    fn successive_calls_against_contract() {
        let mut g: EventIdGenerator = kani::any();
        let shard: u16 = kani::any();
        kani::assume(g.sequence <= 0xFFF && shard < 1024 && g.last_millis >= EPOCH);
        let a = g.next(shard);
        let b = g.next(shard);
        kani::cover!(b.raw() > a.raw(), "COVER:reachable");
        if g.last_millis < EPOCH + (1u64 << 42) {
            assert!(b.raw() > a.raw() && (a.raw() >> 12) & 0x3ff == shard as u64 && (b.raw() >> 12) & 0x3ff == shard as u64,
                "OBL:C18.event_id.successive_calls_increase");
        }
    }

    #[kani::proof]
    #[kani::stub(current_millis, clock_any)]
    #[kani::stub(std::thread::yield_now, no_yield)]
    fn wait_next_millis_contract() {
        let last: u64 = kani::any();
        // partial correctness: every terminating run within the unwinding returns > last;
        // the loop exit condition is the only way out, unwinding assertion is off on purpose
        let r = wait_next_millis(last);
        kani::cover!(true, "COVER:returns");
        assert!(r > last, "OBL:C18.event_id.wait_next_millis.result_after_last");
    }
