//@unit c08_temporal_pair
//@property C08
//@file src/engine/core/time/zone_temporal_index.rs
//@needs pub fn contains_ts(&self, ts: i64) -> bool {
//@function src/engine/core/time/zone_temporal_index.rs::contains_ts
//@function src/engine/core/time/zone_temporal_index.rs::may_match
//@function src/engine/core/time/zone_temporal_index.rs::may_match_range
//@harness name=probes_three_instants kind=bounded bound="index holding 1..=3 distinct instants (any i64 values whose span fits), built to the representation invariant wf; probe values symbolic" tier=quick timeout=900
//@obligation C08.temporal_pair.probes_sound_3 : counterexample finder paired with the Verus unit c08_temporal_index, executing the REAL slice::binary_search: Eq / Neq / Gt / Gte / Lt / Lte / range probes report the zone whenever one of its <= 3 instants satisfies the probe [bounded]

    #[kani::proof]
    #[kani::unwind(6)]
    fn probes_three_instants() {
        let min: i64 = kani::any();
        let (d1, d2): (u64, u64) = (kani::any(), kani::any());
        let n: usize = kani::any();
        kani::assume(n >= 1 && n <= 3);
        kani::assume(0 < d1 && d1 < d2 && d2 <= i64::MAX as u64);
        let last = if n == 1 { 0 } else if n == 2 { d1 } else { d2 };
        kani::assume((min as i128) + (last as i128) <= i64::MAX as i128);
        let keys: Vec<u64> = if n == 1 { vec![0] } else if n == 2 { vec![0, d1] } else { vec![0, d1, d2] };
        // wf as in contracts/verus/c08_temporal_index.spec: stride 1, keys strictly sorted from 0, extremes, span fits
        let z = std::mem::ManuallyDrop::new(ZoneTemporalIndex { min_ts: min, max_ts: min + last as i64, stride: 1, keys, fences: Vec::new() });
        let vals = [min, min.wrapping_add(d1 as i64), min.wrapping_add(d2 as i64)];
        let v: i64 = kani::any();
        let (lo, hi): (i64, i64) = (kani::any(), kani::any());
        let (mut eq, mut ne, mut gt, mut ge, mut lt, mut le, mut rg) = (false, false, false, false, false, false, false);
        let mut i = 0;
        while i < 3 {
            if i < n {
                let x = vals[i];
                eq = eq || x == v; ne = ne || x != v; gt = gt || x > v; ge = ge || x >= v; lt = lt || x < v; le = le || x <= v;
                rg = rg || (lo <= x && x <= hi);
            }
            i += 1;
        }
        kani::cover!(eq && n == 3, "COVER:stored_instant_probed");
        kani::cover!(!eq && v > min && n == 3, "COVER:absent_instant_probed");
        let ok = (!eq || (z.contains_ts(v) && z.may_match(CompareOp::Eq, v)))
            && (!ne || z.may_match(CompareOp::Neq, v))
            && (!gt || z.may_match(CompareOp::Gt, v))
            && (!ge || z.may_match(CompareOp::Gte, v))
            && (!lt || z.may_match(CompareOp::Lt, v))
            && (!le || z.may_match(CompareOp::Lte, v))
            && (!rg || z.may_match_range(lo, hi));
        assert!(ok, "OBL:C08.temporal_pair.probes_sound_3");
    }
