//@unit c04_zone_plan
//@property C04
//@file src/engine/core/zone/zone_plan.rs
//@rtrace src/engine/core/zone/zone_plan.rs
//@needs pub fn build_all(
//@function src/engine/core/zone/zone_plan.rs::build_all
//@harness name=zones_partition_rows_in_order kind=bounded bound="1..=3 events, rows_per_zone 1..=3" tier=thorough timeout=2400 stubs=yes gate=yes
//@obligation C04.zone_plan.build_all.partition_in_order : the flusher's zone planning cuts the (already ordered) event list into consecutive zones: ranges are contiguous, disjoint, cover every row, ids count up, and each zone holds exactly its slice of events in the same order -- no event is dropped, duplicated or reordered [bounded]

    use crate::engine::core::EventId;

    fn fixed_now() -> u64 { 1_700_000_000 }

    #[kani::proof]
    #[kani::stub(time::now, fixed_now)]
    #[kani::unwind(6)]
    fn zones_partition_rows_in_order() {
        let n: usize = kani::any();
        let rpz: usize = kani::any();
        kani::assume(n >= 1 && n <= 3 && rpz >= 1 && rpz <= 3);
        let ids: [u64; 3] = kani::any();
        let mut events: Vec<Event> = Vec::new();
        let mut i = 0;
        while i < 3 {
            if i < n {
                events.push(Event { event_type: String::from("e"), context_id: String::from("c"), timestamp: i as u64, id: EventId::from_raw(ids[i]), payload: BTreeMap::new() });
            }
            i += 1;
        }
        let r = ZonePlan::build_all(&events, rpz, String::from("u"), 7);
        let ok = match &r {
            Ok(zones) => {
                let mut ok = !zones.is_empty() && zones.len() <= 3;
                let mut next = 0usize;
                let mut z = 0;
                while z < 3 {
                    if ok && z < zones.len() {
                        let p = &zones[z];
                        ok = p.id as usize == z && p.start_index == next && p.end_index >= p.start_index && p.end_index < n
                            && p.end_index - p.start_index + 1 <= rpz && p.events.len() == p.end_index - p.start_index + 1
                            && (p.end_index + 1 == n || p.events.len() == rpz);
                        let mut k = 0;
                        while k < 3 {
                            if ok && k < p.events.len() {
                                ok = p.events[k].id.raw() == ids[p.start_index + k] && p.events[k].timestamp == (p.start_index + k) as u64;
                            }
                            k += 1;
                        }
                        next = p.end_index + 1;
                    }
                    z += 1;
                }
                ok && next == n
            }
            Err(_) => false,
        };
        kani::cover!(n == 3 && rpz == 2, "COVER:last_zone_short");
        kani::cover!(n == 3 && rpz == 1, "COVER:three_zones");
        std::mem::forget(r); std::mem::forget(events);
        assert!(ok, "OBL:C04.zone_plan.build_all.partition_in_order");
    }
