//@unit c04_memtable_bucket
//@property C04
//@file src/engine/core/memory/memtable.rs
//@needs pub fn insert(&mut self, event: Event) -> Result<(), StoreError> {
//@function src/engine/core/memory/memtable.rs::insert
//@function src/engine/core/memory/memtable.rs::insert_internal
//@harness name=bucket_keeps_append_order kind=bounded bound="3 inserts over the concrete contexts a, b, a; event ids and timestamps symbolic" tier=thorough timeout=2400 gate=yes
//@harness name=bucket_one_context_two_events kind=bounded bound="2 inserts into the one concrete context a; event ids and timestamps symbolic (also decreasing timestamps)" tier=manual timeout=900 gate=yes
//@obligation C04.memtable_bucket.append_order_one_context : two events of one context sit in the bucket in the order they were applied, whatever their timestamps [bounded]
//@obligation C04.memtable_bucket.append_order_within_context : events of one context sit in their bucket in the order they were inserted, whatever other contexts are inserted in between; nothing is lost (count and bucket sizes) [bounded]

    use crate::engine::core::EventId;

    fn ev(ctx: &str, raw: u64, ts: u64) -> Event {
        Event { event_type: String::from("e"), context_id: String::from(ctx), timestamp: ts, id: EventId::from_raw(raw), payload: BTreeMap::new() }
    }

    #[kani::proof]
    #[kani::unwind(8)]
    fn bucket_keeps_append_order() {
        let ids: [u64; 3] = kani::any();
        let ts: [u64; 3] = kani::any();
        let mut m = MemTable::new(10);
        let r1 = m.insert(ev("a", ids[0], ts[0])).is_ok();
        let r2 = m.insert(ev("b", ids[1], ts[1])).is_ok();
        let r3 = m.insert(ev("a", ids[2], ts[2])).is_ok();
        let a = m.events.get("a");
        let b = m.events.get("b");
        let ok = r1 && r2 && r3 && m.count == 3
            && match (a, b) {
                (Some(a), Some(b)) => a.len() == 2 && b.len() == 1
                    && a[0].id.raw() == ids[0] && a[0].timestamp == ts[0]
                    && a[1].id.raw() == ids[2] && a[1].timestamp == ts[2]
                    && b[0].id.raw() == ids[1],
                _ => false,
            };
        kani::cover!(ids[0] > ids[2], "COVER:ids_not_ordered");
        std::mem::forget(m);
        assert!(ok, "OBL:C04.memtable_bucket.append_order_within_context");
    }

    #[kani::proof]
    #[kani::unwind(8)]
    fn bucket_one_context_two_events() {
        let ids: [u64; 2] = kani::any();
        let ts: [u64; 2] = kani::any();
        let mut m = MemTable::new(10);
        let r1 = m.insert(ev("a", ids[0], ts[0])).is_ok();
        let r2 = m.insert(ev("a", ids[1], ts[1])).is_ok();
        let ok = r1 && r2 && m.count == 2 && match m.events.get("a") {
            Some(a) => a.len() == 2 && a[0].id.raw() == ids[0] && a[0].timestamp == ts[0] && a[1].id.raw() == ids[1] && a[1].timestamp == ts[1],
            None => false,
        };
        kani::cover!(ts[1] < ts[0], "COVER:later_event_has_earlier_timestamp");
        std::mem::forget(m);
        assert!(ok, "OBL:C04.memtable_bucket.append_order_one_context");
    }
