//@unit c10_rlte_ladder
//@property C10
//@file src/engine/core/zone/rlte_index.rs
//@needs fn build_ladder(sorted_desc: &[String]) -> Vec<String> {
//@function src/engine/core/zone/rlte_index.rs::build_ladder
//@harness name=ladder_envelope kind=bounded bound="zones of 1..=6 rows (concrete 1-byte values, descending)" tier=quick timeout=900
//@obligation C10.rlte_ladder.envelope_is_zone_envelope : the rank ladder of a zone starts with the zone's largest and ends with the zone's smallest value for EVERY row count (not only powers of two) -- the planner and WhereBound::keep_zone read these two entries as the zone's (max, min) envelope [bounded]
//@obligation C10.rlte_ladder.samples_geometric_ranks : the ladder keeps the values at ranks 1, 2, 4, ... in order [bounded]

    /// every zone size 1..=6, each with a concrete length (a symbolic Vec length made CBMC's solver give up)
    fn check_len(n: usize) -> (bool, bool) {
        let all = ["f", "e", "d", "c", "b", "a"]; // descending
        let mut v: Vec<String> = Vec::new();
        let mut i = 0;
        while i < n { v.push(String::from(all[i])); i += 1; }
        let l = std::mem::ManuallyDrop::new(RlteIndex::build_ladder(&v));
        let first_ok = !l.is_empty() && l[0].as_bytes() == all[0].as_bytes();
        let last_ok = !l.is_empty() && l[l.len() - 1].as_bytes() == all[n - 1].as_bytes();
        let r2 = n < 2 || l[1].as_bytes() == all[1].as_bytes();
        let r4 = n < 4 || l[2].as_bytes() == all[3].as_bytes();
        std::mem::forget(v);
        (first_ok && last_ok, r2 && r4)
    }

    #[kani::proof]
    #[kani::unwind(9)]
    fn ladder_envelope() {
        let mut env = true;
        let mut ranks = true;
        let mut n = 1;
        while n <= 6 {
            let (e, r) = check_len(n);
            env = env && e;
            ranks = ranks && r;
            n += 1;
        }
        kani::cover!(true, "COVER:reached");
        assert!(env, "OBL:C10.rlte_ladder.envelope_is_zone_envelope");
        assert!(ranks, "OBL:C10.rlte_ladder.samples_geometric_ranks");
    }
