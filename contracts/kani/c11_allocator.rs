//@unit c11_allocator
//@property C11
//@file src/engine/core/segment/range_allocator.rs
//@needs pub fn next_for_level(&mut self, level: u32) -> u32 {
//@function src/engine/core/segment/range_allocator.rs::next_for_level
//@harness name=fresh_consecutive_ids kind=bounded bound="two allocations on one level, HashMap<u32,u32> with fixed hasher keys" tier=thorough timeout=1800 stubs=yes gate=yes
//@obligation C11.allocator.next_for_level.fresh_and_consecutive : two successive allocations on a level return distinct consecutive ids, both larger than every id the allocator was seeded with for that level [bounded, gate]
//@obligation C11.allocator.next_for_level.stays_in_level_range : an allocated id lies in [level*SPAN, (level+1)*SPAN) [known finding C11-level-overflow excepted]

    fn fixed_random_state() -> std::hash::RandomState {
        unsafe { std::mem::transmute::<(u64, u64), std::hash::RandomState>((0x0123_4567_89ab_cdef, 0x0fed_cba9_8765_4321)) }
    }

    #[kani::proof]
    #[kani::stub(std::hash::RandomState::new, fixed_random_state)]
    #[kani::unwind(6)]
    fn fresh_consecutive_ids() {
        let level: u32 = kani::any();
        let seeded_next: u32 = kani::any();
        kani::assume(level < 400_000);          // level * LEVEL_SPAN fits u32 (levels in use are single digits)
        kani::assume(seeded_next <= 20_000);
        let mut m = HashMap::new();
        m.insert(level, seeded_next);
        let mut a = std::mem::ManuallyDrop::new(RangeAllocator { next_offset_by_level: m });
        let id1 = a.next_for_level(level);
        let id2 = a.next_for_level(level);
        let base = level * LEVEL_SPAN;
        kani::cover!(seeded_next == 0, "COVER:fresh_level");
        assert!(id1 == base + seeded_next && id2 == id1 + 1, "OBL:C11.allocator.next_for_level.fresh_and_consecutive");
        let in_range = id2 < base + LEVEL_SPAN;
        let known_class = seeded_next + 1 >= LEVEL_SPAN; // C11-level-overflow: the level's 10 000 offsets are used up
        kani::cover!(known_class && !in_range, "KNOWN:C11-level-overflow");
        assert!(known_class || in_range, "OBL:C11.allocator.next_for_level.stays_in_level_range");
    }
