//@unit c10_cmp_memtable_source
//@property C10
//@file src/engine/core/read/flow/operators/memtable_source.rs
//@rtrace src/engine/core/read/flow/operators/memtable_source.rs
//@needs fn compare_scalar_values(a: &ScalarValue, b: &ScalarValue) -> Ordering {
//@function src/engine/core/read/flow/operators/memtable_source.rs::compare_scalar_values
//@harness name=cmp_memtable_source_numeric kind=complete tier=quick timeout=900 stubs=yes
//@obligation C10.cmp_memtable_source.string_fallback_unreachable : typed numeric keys never reach the string-rendering fallback
//@obligation C10.cmp_memtable_source.is_numeric_order : this copy of compare_scalar_values (used to sort rows in this tier) orders Int64 / Timestamp keys as integers and non-NaN Float64 keys as floats, for all pairs

    fn no_fallback(_v: &ScalarValue) -> String {
        assert!(false, "OBL-UNREACHABLE:C10.cmp_memtable_source.string_fallback_unreachable");
        String::new()
    }

    #[kani::proof]
    #[kani::stub(ScalarValue::to_string_repr, no_fallback)]
    fn cmp_memtable_source_numeric() {
        let (a, b): (i64, i64) = (kani::any(), kani::any());
        let (x, y): (f64, f64) = (kani::any(), kani::any());
        kani::assume(!x.is_nan() && !y.is_nan());
        let ri = compare_scalar_values(&ScalarValue::Int64(a), &ScalarValue::Int64(b));
        let rt = compare_scalar_values(&ScalarValue::Timestamp(a), &ScalarValue::Timestamp(b));
        let rf = compare_scalar_values(&ScalarValue::Float64(x), &ScalarValue::Float64(y));
        kani::cover!(a < 0 && b >= 0, "COVER:sign_mix");
        kani::cover!(a > (1i64 << 53) && a < i64::MAX && b == a.wrapping_add(1), "COVER:adjacent_large_keys");
        assert!(ri == a.cmp(&b) && rt == a.cmp(&b) && Some(rf) == x.partial_cmp(&y), "OBL:C10.cmp_memtable_source.is_numeric_order");
    }
