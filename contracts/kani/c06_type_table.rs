//@unit c06_type_table
//@property C06
//@file src/command/handlers/store.rs
//@rtrace src/command/handlers/store.rs
//@needs fn type_allows_value(ft: &FieldType, v: &serde_json::Value) -> bool {
//@function src/command/handlers/store.rs::type_allows_value
//@harness name=table_int_numbers kind=complete tier=quick timeout=600
//@harness name=table_big_unsigned kind=complete tier=quick timeout=600
//@harness name=table_float_numbers kind=complete tier=quick timeout=600
//@harness name=table_bool_null kind=complete tier=quick timeout=600
//@harness name=optional_numbers kind=complete tier=quick timeout=900
//@harness name=optional_bool_null kind=complete tier=quick timeout=900
//@harness name=table_strings kind=bounded bound="string values of 0..=2 symbolic bytes" tier=quick timeout=900
//@harness name=table_enum kind=bounded bound="variants {ab, Cd}; value = any 2 ASCII bytes" tier=quick timeout=900
//@obligation C06.type_table.integer_numbers : for every i64 JSON number and every declared type (plain and optional) the decision equals the table taken from the statement
//@obligation C06.type_table.big_unsigned : for every JSON integer above i64::MAX: accepted by u64, float and time fields only
//@obligation C06.type_table.float_numbers : for every finite non-integral-representation JSON float: accepted by float and time fields only
//@obligation C06.type_table.bool_null : booleans only for bool fields; null only for optional fields
//@obligation C06.type_table.optional_numbers : Optional(T) accepts a number iff T does, for every number and every T
//@obligation C06.type_table.optional_bool_null : Optional(T) accepts null for every T and a boolean iff T is bool
//@obligation C06.type_table.strings : strings for string and time fields only (never for numeric, bool) [bounded]
//@obligation C06.type_table.enum_exact_variant : an enum field accepts exactly the declared variants, case-sensitively, and nothing that is not a string [bounded]

    use serde_json::{Number, Value};
    use crate::engine::schema::EnumType;

    /// value kinds of the statement
    #[derive(Clone, Copy, PartialEq)]
    enum VK { Null, Bool, IntNeg, IntNonNeg, BigUnsigned, Float, Str }

    /// the decision table, written from the property statement (not from the code):
    /// "each value of the declared type ... or a parseable time; optional fields may be ... null"
    fn table(ft: u8, vk: VK) -> bool {
        match ft {
            0 => vk == VK::Str,                                                     // string
            1 => vk == VK::IntNonNeg || vk == VK::BigUnsigned,                      // u64
            2 => vk == VK::IntNeg || vk == VK::IntNonNeg,                           // i64
            3 => matches!(vk, VK::IntNeg | VK::IntNonNeg | VK::BigUnsigned | VK::Float), // f64: any number
            4 => vk == VK::Bool,                                                    // bool
            5 | 6 => matches!(vk, VK::Str | VK::IntNeg | VK::IntNonNeg | VK::BigUnsigned | VK::Float), // datetime / date (parseability: C16)
            _ => unreachable!(),
        }
    }

    fn ft_of(code: u8) -> FieldType {
        match code {
            0 => FieldType::String,
            1 => FieldType::U64,
            2 => FieldType::I64,
            3 => FieldType::F64,
            4 => FieldType::Bool,
            5 => FieldType::Timestamp,
            _ => FieldType::Date,
        }
    }

    /// all 7 plain types against one value (the Optional arm is never feasible here: no recursion to unwind)
    fn check_all(v: &Value, vk: VK) -> bool {
        let mut ok = true;
        let mut code = 0u8;
        while code < 7 {
            let plain = ft_of(code);
            ok = ok && (type_allows_value(&plain, v) == table(code, vk));
            code += 1;
        }
        ok
    }

    /// Optional(inner) for all 7 inner types, straight-line; used under #[kani::unwind(3)] which bounds the
    /// recursion of type_allows_value / drop glue at the structural depth 2 (unwinding assertions on)
    fn check_optional(v: &Value, vk: VK) -> bool {
        macro_rules! one { ($code:expr) => {{
            let opt = FieldType::Optional(Box::new(ft_of($code)));
            type_allows_value(&opt, v) == (vk == VK::Null || table($code, vk))
        }}; }
        one!(0) && one!(1) && one!(2) && one!(3) && one!(4) && one!(5) && one!(6)
    }

    #[kani::proof]
    #[kani::unwind(3)]
    fn optional_numbers() {
        let n: i64 = kani::any();
        let u: u64 = kani::any();
        kani::assume(u > i64::MAX as u64);
        let f: f64 = kani::any();
        kani::assume(f.is_finite());
        kani::cover!(n < 0, "COVER:negative");
        let ok = check_optional(&Value::Number(Number::from(n)), if n < 0 { VK::IntNeg } else { VK::IntNonNeg })
            && check_optional(&Value::Number(Number::from(u)), VK::BigUnsigned)
            && check_optional(&Value::Number(Number::from_f64(f).unwrap()), VK::Float);
        assert!(ok, "OBL:C06.type_table.optional_numbers");
    }

    #[kani::proof]
    #[kani::unwind(3)]
    fn optional_bool_null() {
        let b: bool = kani::any();
        kani::cover!(b, "COVER:true");
        assert!(check_optional(&Value::Bool(b), VK::Bool) && check_optional(&Value::Null, VK::Null),
            "OBL:C06.type_table.optional_bool_null");
    }

    #[kani::proof]
    fn table_int_numbers() {
        let n: i64 = kani::any();
        let v = Value::Number(Number::from(n));
        kani::cover!(n < 0, "COVER:negative");
        kani::cover!(n >= 0, "COVER:non_negative");
        assert!(check_all(&v, if n < 0 { VK::IntNeg } else { VK::IntNonNeg }), "OBL:C06.type_table.integer_numbers");
    }

    #[kani::proof]
    fn table_big_unsigned() {
        let u: u64 = kani::any();
        kani::assume(u > i64::MAX as u64);
        let v = Value::Number(Number::from(u));
        kani::cover!(u == u64::MAX, "COVER:max");
        assert!(check_all(&v, VK::BigUnsigned), "OBL:C06.type_table.big_unsigned");
    }

    #[kani::proof]
    fn table_float_numbers() {
        let f: f64 = kani::any();
        kani::assume(f.is_finite());
        let n = Number::from_f64(f);
        kani::cover!(n.is_some() && f.fract() != 0.0, "COVER:fractional");
        kani::cover!(n.is_some() && f.fract() == 0.0, "COVER:integral_float_spelling");
        let v = Value::Number(n.unwrap());
        assert!(check_all(&v, VK::Float), "OBL:C06.type_table.float_numbers");
    }

    #[kani::proof]
    fn table_bool_null() {
        let b: bool = kani::any();
        kani::cover!(b, "COVER:true");
        assert!(check_all(&Value::Bool(b), VK::Bool) && check_all(&Value::Null, VK::Null), "OBL:C06.type_table.bool_null");
    }

    fn small_string(max: usize) -> String {
        let len: usize = kani::any();
        kani::assume(len <= max);
        let mut s = String::new();
        let mut i = 0;
        while i < max {
            if i < len {
                let c: u8 = kani::any();
                kani::assume(c < 0x80);
                s.push(c as char);
            }
            i += 1;
        }
        s
    }

    #[kani::proof]
    fn table_strings() {
        let s = small_string(2);
        kani::cover!(s.len() == 2, "COVER:two_bytes");
        kani::cover!(s.is_empty(), "COVER:empty_string");
        assert!(check_all(&Value::String(s), VK::Str), "OBL:C06.type_table.strings");
    }

    #[kani::proof]
    #[kani::unwind(4)] // memcmp over <= 2 bytes, recursion depth 1; unwinding assertions on
    fn table_enum() {
        // never dropped: FieldType's drop glue is recursive (Optional(Box<FieldType>)) and CBMC would unwind it without end
        let et = std::mem::ManuallyDrop::new(FieldType::Enum(EnumType { variants: vec![String::from("ab"), String::from("Cd")] }));
        let x: [u8; 2] = kani::any();
        kani::assume(x[0] < 0x80 && x[1] < 0x80);
        // length stays concrete (String::push of a symbolic char makes the length symbolic for CBMC)
        let s = unsafe { String::from_utf8_unchecked(x.to_vec()) }; // harness-only; ASCII by the assume above
        let is_variant = (x[0] == b'a' && x[1] == b'b') || (x[0] == b'C' && x[1] == b'd');
        kani::cover!(x[0] == b'a' && x[1] == b'b', "COVER:first_variant");
        kani::cover!(x[0] == b'C' && x[1] == b'd', "COVER:second_variant");
        kani::cover!(x[0] == b'A' && x[1] == b'b', "COVER:case_differs");
        let sv = std::mem::ManuallyDrop::new(Value::String(s));
        let n: i64 = kani::any();
        let ok = type_allows_value(&et, &sv) == is_variant
            && !type_allows_value(&et, &Value::Number(Number::from(n)))
            && !type_allows_value(&et, &Value::Bool(true))
            && !type_allows_value(&et, &Value::Null);
        assert!(ok, "OBL:C06.type_table.enum_exact_variant");
    }
