//@unit c14_null_bitmap
//@property C14
//@file src/engine/materialize/store/codec/bitmap.rs
//@needs pub fn set_bit(bitmap: &mut [u8], index: usize) {
//@needs pub fn size_for(row_count: usize, column_count: usize) -> usize {
//@function src/engine/materialize/store/codec/bitmap.rs::set_bit
//@function src/engine/materialize/store/codec/bitmap.rs::is_null
//@function src/engine/materialize/store/codec/bitmap.rs::size_for
//@harness name=null_bitmap_set_then_read kind=bounded bound="bitmaps of 3 bytes" tier=quick timeout=600
//@harness name=null_bitmap_size_covers_cells kind=complete tier=quick timeout=600
//@obligation C14.null_bitmap.set_then_is_null : a cell marked null in a stored frame reads back as null and no other cell changes [bounded bitmap length]
//@obligation C14.null_bitmap.size_covers_all_cells : the bitmap allocated for rows x columns has a bit for every cell index (rows, columns < 2^31)

    #[kani::proof]
    #[kani::unwind(26)]
    fn null_bitmap_set_then_read() {
        let mut b: [u8; 3] = kani::any();
        let old = b;
        let idx: usize = kani::any();
        kani::assume(idx < 24);
        NullBitmap::set_bit(&mut b, idx);
        let mut ok = true;
        let mut i = 0;
        while i < 24 {
            let was = old[i / 8] & (1 << (i % 8)) != 0;
            ok = ok && NullBitmap::is_null(&b, i) == (was || i == idx);
            i += 1;
        }
        kani::cover!(idx == 23, "COVER:last_cell");
        assert!(ok, "OBL:C14.null_bitmap.set_then_is_null");
    }

    #[kani::proof]
    fn null_bitmap_size_covers_cells() {
        let (r, c): (usize, usize) = (kani::any(), kani::any());
        kani::assume(r < (1usize << 31) && c < (1usize << 31));
        let n = NullBitmap::size_for(r, c);
        kani::cover!(r * c % 8 == 1, "COVER:partial_last_byte");
        assert!(n * 8 >= r * c && n * 8 < r * c + 8, "OBL:C14.null_bitmap.size_covers_all_cells");
    }
