//@unit c02_builder
//@property C02
//@file src/engine/core/filter/condition_evaluator_builder.rs
//@rtrace src/engine/core/filter/condition_evaluator_builder.rs
//@needs pub fn add_where_clause(&mut self, where_clause: &Expr) {
//@function src/engine/core/filter/condition_evaluator_builder.rs::add_where_clause
//@harness name=where_leaf kind=complete tier=thorough timeout=1200 stubs=yes gate=yes
//@harness name=where_and_or_not_of_leaves kind=complete tier=manual timeout=3600 stubs=yes gate=yes
//@harness name=where_nested_and_under_or_not kind=complete tier=manual timeout=3600 stubs=yes gate=yes
//@harness name=where_nested_or_under_and_not kind=complete tier=manual timeout=3600 stubs=yes gate=yes
//@obligation C02.builder.literal_is_scalar : the literal of a comparison is never cloned as an array or object
//@obligation C02.builder.number_literal_not_parsed_as_time : a numeric literal is never sent through the temporal string parser
//@obligation C02.builder.number_literal_builds_numeric_condition : a comparison with an integer literal never yields a string or IN condition
//@obligation C02.builder.add_where_clause.leaf : WHERE `x op literal` (integer literal) selects exactly the rows whose cell satisfies the comparison
//@obligation C02.builder.add_where_clause.connectives : AND / OR / NOT over comparisons select exactly the rows satisfying the boolean combination
//@obligation C02.builder.add_where_clause.nested_and : (a AND b) OR c, NOT (a AND b) keep their grouping
//@obligation C02.builder.add_where_clause.nested_or : (a OR b) AND c, NOT (a OR b) keep their grouping

    use crate::engine::core::filter::condition::FieldAccessor;
    use crate::engine::core::filter::condition_evaluator::__verif_c02_builder_stubs::{add_logical_no_bookkeeping, add_numeric_no_bookkeeping};
    use crate::engine::core::ConditionEvaluator;

    /// serde_json::Value::clone restricted to the scalar literals a WHERE comparison can carry.  The derived
    /// Clone is recursive over Array / Object, which CBMC unwinds without end behind a reference; this is the
    /// same structural copy for Null / Bool / Number / String and unreachable otherwise (assumed, listed).
    fn clone_scalar_json(v: &serde_json::Value) -> serde_json::Value {
        // one returning arm only: the variant of the result stays syntactically concrete for CBMC
        if let serde_json::Value::Number(n) = v {
            return serde_json::Value::Number(n.clone());
        }
        assert!(false, "OBL-UNREACHABLE:C02.builder.literal_is_scalar");
        loop {}
    }

    fn fixed_random_state() -> std::hash::RandomState {
        // harness-only: fixed hasher keys, so that ConditionEvaluator::new() (an empty HashSet) costs CBMC nothing
        unsafe { std::mem::transmute::<(u64, u64), std::hash::RandomState>((0x0123_4567_89ab_cdef, 0x0fed_cba9_8765_4321)) }
    }

    fn no_time_parse(_s: &str, _k: TimeKind) -> Option<i64> {
        // number literals never reach the temporal string parser (chrono); if CBMC cannot rule the call out
        // syntactically it at least finds a trivial body here
        assert!(false, "OBL-UNREACHABLE:C02.builder.number_literal_not_parsed_as_time");
        None
    }

    // number literals never produce string / IN conditions; with these three adders reduced to an unreachability
    // obligation the only concrete types CBMC sees behind `dyn Condition` are NumericCondition and LogicalCondition
    fn no_string_condition(_ev: &mut ConditionEvaluator, _f: String, _o: crate::engine::core::filter::condition::CompareOp, _v: String) {
        assert!(false, "OBL-UNREACHABLE:C02.builder.number_literal_builds_numeric_condition");
    }
    fn no_in_numeric(_ev: &mut ConditionEvaluator, _f: String, _v: Vec<i64>) {
        assert!(false, "OBL-UNREACHABLE:C02.builder.number_literal_builds_numeric_condition");
    }
    fn no_in_string(_ev: &mut ConditionEvaluator, _f: String, _v: Vec<String>) {
        assert!(false, "OBL-UNREACHABLE:C02.builder.number_literal_builds_numeric_condition");
    }

    struct I64Cell(i64);
    impl FieldAccessor for I64Cell {
        fn get_str_at(&self, _f: &str, _i: usize) -> Option<&str> { None }
        fn get_i64_at(&self, _f: &str, _i: usize) -> Option<i64> { Some(self.0) }
        fn get_u64_at(&self, _f: &str, _i: usize) -> Option<u64> { None }
        fn get_f64_at(&self, _f: &str, _i: usize) -> Option<f64> { None }
        fn event_count(&self) -> usize { 1 }
    }

    fn any_cmp() -> (CompareOp, u8) {
        let k: u8 = kani::any();
        kani::assume(k < 6);
        (match k { 0 => CompareOp::Gt, 1 => CompareOp::Gte, 2 => CompareOp::Lt, 3 => CompareOp::Lte, 4 => CompareOp::Eq, _ => CompareOp::Neq }, k)
    }
    fn math(k: u8, lhs: i64, rhs: i64) -> bool {
        match k { 0 => lhs > rhs, 1 => lhs >= rhs, 2 => lhs < rhs, 3 => lhs <= rhs, 4 => lhs == rhs, _ => lhs != rhs }
    }
    fn leaf(op: CompareOp, v: i64) -> Expr {
        Expr::Compare { field: String::from("x"), op, value: serde_json::Value::Number(serde_json::Number::from(v)) }
    }
    /// the row-level answer of the evaluator built from `e`: all top-level conditions must hold (as evaluate_event /
    /// evaluate_zones do)
    fn selected(e: Expr, cell: i64) -> bool {
        let mut b = ConditionEvaluatorBuilder::new();
        b.add_where_clause(&e);
        std::mem::forget(e); // Expr's drop glue is recursive; a plain local keeps its variant concrete for CBMC
        let conds = std::mem::ManuallyDrop::new(b.into_evaluator().into_conditions());
        let acc = I64Cell(cell);
        let mut all = true;
        for c in conds.iter() {
            all = all && c.evaluate_at(&acc, 0);
        }
        all
    }

    #[kani::proof]
    #[kani::stub(<serde_json::Value as std::clone::Clone>::clone, clone_scalar_json)]
    #[kani::stub(TimeParser::parse_str_to_epoch_seconds, no_time_parse)]
    #[kani::stub(std::hash::RandomState::new, fixed_random_state)]
    #[kani::stub(ConditionEvaluator::add_numeric_condition, add_numeric_no_bookkeeping)]
    #[kani::stub(ConditionEvaluator::add_logical_condition, add_logical_no_bookkeeping)]
    #[kani::stub(ConditionEvaluator::add_string_condition, no_string_condition)]
    #[kani::stub(ConditionEvaluator::add_in_numeric_condition, no_in_numeric)]
    #[kani::stub(ConditionEvaluator::add_in_string_condition, no_in_string)]
    #[kani::unwind(6)]
    fn where_leaf() {
        let (op, k) = any_cmp();
        let (v, cell): (i64, i64) = (kani::any(), kani::any());
        let e = leaf(op, v);
        kani::cover!(math(k, cell, v), "COVER:selected");
        assert!(selected(e, cell) == math(k, cell, v), "OBL:C02.builder.add_where_clause.leaf");
    }

    #[kani::proof]
    #[kani::stub(<serde_json::Value as std::clone::Clone>::clone, clone_scalar_json)]
    #[kani::stub(TimeParser::parse_str_to_epoch_seconds, no_time_parse)]
    #[kani::stub(std::hash::RandomState::new, fixed_random_state)]
    #[kani::stub(ConditionEvaluator::add_numeric_condition, add_numeric_no_bookkeeping)]
    #[kani::stub(ConditionEvaluator::add_logical_condition, add_logical_no_bookkeeping)]
    #[kani::stub(ConditionEvaluator::add_string_condition, no_string_condition)]
    #[kani::stub(ConditionEvaluator::add_in_numeric_condition, no_in_numeric)]
    #[kani::stub(ConditionEvaluator::add_in_string_condition, no_in_string)]
    #[kani::unwind(6)]
    fn where_and_or_not_of_leaves() {
        let ((o1, k1), (o2, k2)) = (any_cmp(), any_cmp());
        let (v1, v2, cell): (i64, i64, i64) = (kani::any(), kani::any(), kani::any());
        let (a, b) = (math(k1, cell, v1), math(k2, cell, v2));
        let and = Expr::And(Box::new(leaf(o1.clone(), v1)), Box::new(leaf(o2.clone(), v2)));
        let or = Expr::Or(Box::new(leaf(o1.clone(), v1)), Box::new(leaf(o2.clone(), v2)));
        let not = Expr::Not(Box::new(leaf(o1, v1)));
        kani::cover!(a && !b, "COVER:mixed");
        assert!(selected(and, cell) == (a && b) && selected(or, cell) == (a || b) && selected(not, cell) == !a,
            "OBL:C02.builder.add_where_clause.connectives");
    }

    #[kani::proof]
    #[kani::stub(<serde_json::Value as std::clone::Clone>::clone, clone_scalar_json)]
    #[kani::stub(TimeParser::parse_str_to_epoch_seconds, no_time_parse)]
    #[kani::stub(std::hash::RandomState::new, fixed_random_state)]
    #[kani::stub(ConditionEvaluator::add_numeric_condition, add_numeric_no_bookkeeping)]
    #[kani::stub(ConditionEvaluator::add_logical_condition, add_logical_no_bookkeeping)]
    #[kani::stub(ConditionEvaluator::add_string_condition, no_string_condition)]
    #[kani::stub(ConditionEvaluator::add_in_numeric_condition, no_in_numeric)]
    #[kani::stub(ConditionEvaluator::add_in_string_condition, no_in_string)]
    #[kani::unwind(6)]
    fn where_nested_and_under_or_not() {
        let ((o1, k1), (o2, k2), (o3, k3)) = (any_cmp(), any_cmp(), any_cmp());
        let (v1, v2, v3, cell): (i64, i64, i64, i64) = (kani::any(), kani::any(), kani::any(), kani::any());
        let (a, b, c) = (math(k1, cell, v1), math(k2, cell, v2), math(k3, cell, v3));
        let and_or = Expr::Or(
            Box::new(Expr::And(Box::new(leaf(o1.clone(), v1)), Box::new(leaf(o2.clone(), v2)))), Box::new(leaf(o3, v3)));
        let not_and = Expr::Not(Box::new(Expr::And(Box::new(leaf(o1, v1)), Box::new(leaf(o2, v2)))));
        kani::cover!(a && !b && !c, "COVER:distinguishing_row");
        assert!(selected(and_or, cell) == ((a && b) || c) && selected(not_and, cell) == !(a && b),
            "OBL:C02.builder.add_where_clause.nested_and");
    }

    #[kani::proof]
    #[kani::stub(<serde_json::Value as std::clone::Clone>::clone, clone_scalar_json)]
    #[kani::stub(TimeParser::parse_str_to_epoch_seconds, no_time_parse)]
    #[kani::stub(std::hash::RandomState::new, fixed_random_state)]
    #[kani::stub(ConditionEvaluator::add_numeric_condition, add_numeric_no_bookkeeping)]
    #[kani::stub(ConditionEvaluator::add_logical_condition, add_logical_no_bookkeeping)]
    #[kani::stub(ConditionEvaluator::add_string_condition, no_string_condition)]
    #[kani::stub(ConditionEvaluator::add_in_numeric_condition, no_in_numeric)]
    #[kani::stub(ConditionEvaluator::add_in_string_condition, no_in_string)]
    #[kani::unwind(6)]
    fn where_nested_or_under_and_not() {
        let ((o1, k1), (o2, k2), (o3, k3)) = (any_cmp(), any_cmp(), any_cmp());
        let (v1, v2, v3, cell): (i64, i64, i64, i64) = (kani::any(), kani::any(), kani::any(), kani::any());
        let (a, b, c) = (math(k1, cell, v1), math(k2, cell, v2), math(k3, cell, v3));
        let or_and = Expr::And(
            Box::new(Expr::Or(Box::new(leaf(o1.clone(), v1)), Box::new(leaf(o2.clone(), v2)))), Box::new(leaf(o3, v3)));
        let not_or = Expr::Not(Box::new(Expr::Or(Box::new(leaf(o1, v1)), Box::new(leaf(o2, v2)))));
        kani::cover!(!a && b && c, "COVER:distinguishing_row");
        assert!(selected(or_and, cell) == ((a || b) && c) && selected(not_or, cell) == !(a || b),
            "OBL:C02.builder.add_where_clause.nested_or");
    }

