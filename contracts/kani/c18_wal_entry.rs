//@unit c18_wal_entry
//@property C18
//@file src/engine/core/wal/wal_entry.rs
//@needs pub fn from_event(event: &Event) -> Self {
//@function src/engine/core/wal/wal_entry.rs::from_event
//@harness name=from_event_keeps_identity kind=bounded bound="payload with one entry (Int64), concrete 1-byte context / type / key strings" tier=quick timeout=900
//@obligation C18.wal_entry.from_event.keeps_id_and_fields : the write-ahead-log entry of an event carries the same event id, timestamp, context id, event type and payload value (so recovery can reproduce the original id) [bounded]

    #[kani::proof]
    #[kani::unwind(4)]
    fn from_event_keeps_identity() {
        let raw: u64 = kani::any();
        let ts: u64 = kani::any();
        let v: i64 = kani::any();
        let mut payload = BTreeMap::new();
        payload.insert(String::from("k"), ScalarValue::Int64(v));
        let ev = std::mem::ManuallyDrop::new(Event {
            event_type: String::from("e"), context_id: String::from("c"), timestamp: ts, id: EventId::from_raw(raw), payload,
        });
        let w = std::mem::ManuallyDrop::new(WalEntry::from_event(&ev));
        kani::cover!(raw != 0, "COVER:nonzero_id");
        let payload_ok = matches!(w.payload.get("k"), Some(ScalarValue::Int64(x)) if *x == v) && w.payload.len() == 1;
        assert!(w.event_id.raw() == raw && w.timestamp == ts && w.context_id.as_bytes() == b"c" && w.event_type.as_bytes() == b"e" && payload_ok,
            "OBL:C18.wal_entry.from_event.keeps_id_and_fields");
    }
