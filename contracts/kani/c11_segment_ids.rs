//@unit c11_segment_ids
//@property C11
//@file src/engine/core/segment/segment_index.rs
//@rtrace src/engine/core/segment/segment_index.rs
//@needs pub fn offset_in_level(&self) -> u32 {
//@function src/engine/core/segment/segment_id.rs::level
//@function src/engine/core/segment/segment_index.rs::offset_in_level
//@function src/engine/core/segment/segment_index.rs::level
//@harness name=id_decomposition kind=complete tier=quick timeout=600
//@obligation C11.segment_ids.level_offset_decompose_id : for every u32 id: id == level * LEVEL_SPAN + offset_in_level with offset < LEVEL_SPAN, so two ids are equal iff (level, offset) are equal and a level's ids never fall into another level's range

    #[kani::proof]
    fn id_decomposition() {
        let id: u32 = kani::any();
        let e = std::mem::ManuallyDrop::new(SegmentEntry { id, uids: Vec::new() });
        let (lvl, off) = (e.level(), e.offset_in_level());
        kani::cover!(lvl == 2 && off == 9_999, "COVER:last_of_level");
        assert!(off < LEVEL_SPAN && (lvl as u64) * (LEVEL_SPAN as u64) + off as u64 == id as u64 && SegmentId::new(id).level() == lvl,
            "OBL:C11.segment_ids.level_offset_decompose_id");
    }
