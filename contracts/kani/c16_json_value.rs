//@unit c16_json_value
//@property C16
//@file src/shared/time.rs
//@needs pub fn normalize_json_value(
//@function src/shared/time.rs::normalize_json_value
//@harness name=json_i64_arm kind=complete tier=quick timeout=900 stubs=yes
//@harness name=json_u64_arm kind=complete tier=quick timeout=900 stubs=yes
//@harness name=json_f64_arm kind=complete tier=quick timeout=900 stubs=yes
//@harness name=json_other_kinds_rejected kind=complete tier=quick timeout=900 stubs=yes
//@obligation C16.json_value.integer_arms_use_the_epoch_heuristic : a JSON integer time value (i64 or u64) is replaced by exactly normalize_integer_epoch of it, and rejected iff that returns None (callee replaced by its Verus-proved specification)
//@obligation C16.json_value.number_not_parsed_as_string : a JSON number never reaches the string parser
//@obligation C16.json_value.float_is_floored_seconds : a JSON float time value f is replaced by the integer r with r <= f and f - r < 1
//@obligation C16.json_value.non_time_kinds_rejected : null, booleans, arrays and objects are rejected and left unchanged

    use serde_json::{Number, Value};

    /// a cheap stand-in with the same *interface* for the arms below: CBMC only needs the caller to pass the value
    /// through and to honour Some/None; the arithmetic itself is c16_epoch / c16_time_pairs
    fn epoch_oracle(n: i128) -> Option<i64> {
        if n % 7 == 3 { None } else if n >= i64::MIN as i128 && n <= i64::MAX as i128 { Some((n as i64) ^ 0x5a5a) } else { None }
    }
    fn no_str_parse(_s: &str, _k: TimeKind) -> Option<i64> {
        assert!(false, "OBL-UNREACHABLE:C16.json_value.number_not_parsed_as_string");
        None
    }
    fn fmt_stub(_args: std::fmt::Arguments<'_>) -> String { String::new() }

    #[kani::proof]
    #[kani::stub(TimeParser::normalize_integer_epoch, epoch_oracle)]
    #[kani::stub(TimeParser::parse_str_to_epoch_seconds, no_str_parse)]
    #[kani::stub(alloc::fmt::format, fmt_stub)]
    #[kani::unwind(4)]
    fn json_i64_arm() {
        let i: i64 = kani::any();
        let mut v = Value::Number(Number::from(i));
        let r = TimeParser::normalize_json_value(&mut v, TimeKind::DateTime);
        let want = epoch_oracle(i as i128);
        kani::cover!(want.is_none(), "COVER:rejected");
        kani::cover!(want.is_some(), "COVER:accepted");
        let ok = match want {
            Some(w) => r.is_ok() && v.as_i64() == Some(w),
            None => r.is_err(),
        };
        std::mem::forget(v); std::mem::forget(r);
        assert!(ok, "OBL:C16.json_value.integer_arms_use_the_epoch_heuristic");
    }

    #[kani::proof]
    #[kani::stub(TimeParser::normalize_integer_epoch, epoch_oracle)]
    #[kani::stub(TimeParser::parse_str_to_epoch_seconds, no_str_parse)]
    #[kani::stub(alloc::fmt::format, fmt_stub)]
    #[kani::unwind(4)]
    fn json_u64_arm() {
        let u: u64 = kani::any();
        kani::assume(u > i64::MAX as u64);
        let mut v = Value::Number(Number::from(u));
        let r = TimeParser::normalize_json_value(&mut v, TimeKind::Date);
        let want = epoch_oracle(u as i128);
        kani::cover!(want.is_none(), "COVER:rejected");
        let ok = match want {
            Some(w) => r.is_ok() && v.as_i64() == Some(w),
            None => r.is_err(),
        };
        std::mem::forget(v); std::mem::forget(r);
        assert!(ok, "OBL:C16.json_value.integer_arms_use_the_epoch_heuristic");
    }

    #[kani::proof]
    #[kani::stub(TimeParser::normalize_integer_epoch, epoch_oracle)]
    #[kani::stub(TimeParser::parse_str_to_epoch_seconds, no_str_parse)]
    #[kani::stub(alloc::fmt::format, fmt_stub)]
    #[kani::unwind(4)]
    fn json_f64_arm() {
        let f: f64 = kani::any();
        kani::assume(f.is_finite() && f > -9.0e18 && f < 9.0e18);
        let mut v = Value::Number(Number::from_f64(f).unwrap());
        let r = TimeParser::normalize_json_value(&mut v, TimeKind::DateTime);
        let got = v.as_i64();
        kani::cover!(f < 0.0 && f > -10.0, "COVER:negative_fraction");
        let ok = r.is_ok() && match got { Some(x) => (x as f64) <= f && ((x as f64) == f || ((x + 1) as f64) > f), None => false /* no float arithmetic in the spec: f - x and x + 1.0 both round */ };
        std::mem::forget(v); std::mem::forget(r);
        assert!(ok, "OBL:C16.json_value.float_is_floored_seconds");
    }

    #[kani::proof]
    #[kani::stub(TimeParser::normalize_integer_epoch, epoch_oracle)]
    #[kani::stub(TimeParser::parse_str_to_epoch_seconds, no_str_parse)]
    #[kani::stub(alloc::fmt::format, fmt_stub)]
    #[kani::unwind(4)]
    fn json_other_kinds_rejected() {
        let b: bool = kani::any();
        let mut vb = Value::Bool(b);
        let mut vn = Value::Null;
        let rb = TimeParser::normalize_json_value(&mut vb, TimeKind::DateTime);
        let rn = TimeParser::normalize_json_value(&mut vn, TimeKind::Date);
        kani::cover!(b, "COVER:true");
        let ok = rb.is_err() && rn.is_err() && vb.as_bool() == Some(b) && vn.is_null();
        std::mem::forget(rb); std::mem::forget(rn);
        assert!(ok, "OBL:C16.json_value.non_time_kinds_rejected");
    }
