//@unit c12_routing
//@property C12
//@file src/engine/shard/manager.rs
//@rtrace src/engine/shard/manager.rs
//@needs pub fn get_shard(&self, context_id: &str) -> &Shard {
//@function src/engine/shard/manager.rs::get_shard
//@harness name=route_4_bytes kind=bounded bound="context ids of exactly 1..=4 symbolic bytes (valid UTF-8: ASCII), 1..=4 shards" tier=quick timeout=1200
//@harness name=route_8_bytes kind=bounded bound="context ids of 8 symbolic ASCII bytes, 1..=4 shards" tier=thorough timeout=3600 gate=yes
//@obligation C12.routing.get_shard.in_range : the returned shard is one of the manager's shards for every context id (no panic, index < shard count)
//@obligation C12.routing.get_shard.is_std_default_hash : the shard index equals DefaultHasher::new()-hash(context_id) % shard_count, a function of the id bytes and the shard count only -- the same in every process lifetime

    use std::collections::hash_map::DefaultHasher;
    use std::hash::{Hash, Hasher};

    /// `get_shard` never touches `tx`; the handle is fabricated (never used, never dropped) because creating a real
    /// tokio channel makes kani-compiler 0.68 panic. Harness code, not code under test.
    fn fake_shard(id: usize) -> Shard {
        let tx: tokio::sync::mpsc::Sender<crate::engine::shard::message::ShardMessage> =
            unsafe { std::mem::transmute::<usize, _>(0x1000usize + id * 64) };
        Shard { id, tx, base_dir: std::path::PathBuf::new() }
    }

    fn check(bytes: &[u8], n: usize) {
        let mut shards = Vec::new();
        let mut i = 0;
        while i < n {
            shards.push(fake_shard(i));
            i += 1;
        }
        let mgr = std::mem::ManuallyDrop::new(ShardManager { shards });
        let s = unsafe { std::str::from_utf8_unchecked(bytes) };
        let got = mgr.get_shard(s).id;
        let mut h = DefaultHasher::new();
        s.hash(&mut h);
        let want = (h.finish() as usize) % n;
        assert!(got < n, "OBL:C12.routing.get_shard.in_range");
        assert!(got == want, "OBL:C12.routing.get_shard.is_std_default_hash");
    }

    #[kani::proof]
    #[kani::unwind(10)]
    fn route_4_bytes() {
        let b: [u8; 4] = kani::any();
        kani::assume(b[0] < 0x80 && b[1] < 0x80 && b[2] < 0x80 && b[3] < 0x80);
        let len: usize = kani::any();
        kani::assume(len >= 1 && len <= 4);
        let n: usize = kani::any();
        kani::assume(n >= 1 && n <= 4);
        kani::cover!(n == 3 && len == 4, "COVER:three_shards");
        check(&b[..len], n);
    }

    #[kani::proof]
    #[kani::unwind(12)]
    fn route_8_bytes() {
        let b: [u8; 8] = kani::any();
        let mut i = 0;
        while i < 8 { kani::assume(b[i] < 0x80); i += 1; }
        let n: usize = kani::any();
        kani::assume(n >= 1 && n <= 4);
        kani::cover!(n == 4, "COVER:four_shards");
        check(&b, n);
    }
