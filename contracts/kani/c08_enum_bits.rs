//@unit c08_enum_bits
//@property C08
//@file src/engine/core/zone/enum_bitmap_index.rs
//@needs fn set_bit(bytes: &mut [u8], idx: usize) {
//@needs fn alloc_bitmap(&self) -> Vec<u8> {
//@function src/engine/core/zone/enum_bitmap_index.rs::set_bit
//@function src/engine/core/zone/enum_bitmap_index.rs::alloc_bitmap
//@harness name=set_bit_exact kind=bounded bound="bitmaps of 3 bytes (24 rows)" tier=quick timeout=600
//@harness name=alloc_bitmap_covers_rows kind=complete tier=quick timeout=600 stubs=yes
//@obligation C08.enum_bits.set_bit_sets_exactly_that_row : marking row idx sets bit idx and changes no other bit, so a variant's bitmap is non-zero iff some row of the zone holds that variant [bounded bitmap length]
//@obligation C08.enum_bits.alloc_bitmap_has_a_bit_per_row : for every rows_per_zone (u16) the allocated bitmap has a bit for every row index below it (no out-of-bounds set_bit, no row without a bit) and is all zero

    #[kani::proof]
    #[kani::unwind(26)]
    fn set_bit_exact() {
        let mut b: [u8; 3] = kani::any();
        let old = b;
        let idx: usize = kani::any();
        kani::assume(idx < 24);
        EnumBitmapBuilder::set_bit(&mut b, idx);
        let mut ok = true;
        let mut i = 0;
        while i < 24 {
            let was = old[i / 8] & (1 << (i % 8)) != 0;
            let is = b[i / 8] & (1 << (i % 8)) != 0;
            ok = ok && (is == (was || i == idx));
            i += 1;
        }
        kani::cover!(idx == 23, "COVER:last_bit");
        assert!(ok, "OBL:C08.enum_bits.set_bit_sets_exactly_that_row");
    }

    fn fixed_random_state() -> std::hash::RandomState {
        // harness-only: the builder owns an (unused) HashMap; its RandomState would call getrandom
        unsafe { std::mem::transmute::<(u64, u64), std::hash::RandomState>((1, 2)) }
    }

    #[kani::proof]
    #[kani::stub(std::hash::RandomState::new, fixed_random_state)]
    fn alloc_bitmap_covers_rows() {
        let rows: u16 = kani::any();
        let bld = std::mem::ManuallyDrop::new(EnumBitmapBuilder::new("u", "f", Vec::new(), rows));
        let bm = std::mem::ManuallyDrop::new(bld.alloc_bitmap());
        let any_idx: usize = kani::any();
        kani::assume(any_idx < bm.len());
        kani::cover!(rows == 65535, "COVER:max_rows");
        assert!(bm.len() * 8 >= rows as usize && bm.len() * 8 < rows as usize + 8 && bm[any_idx] == 0,
            "OBL:C08.enum_bits.alloc_bitmap_has_a_bit_per_row");
    }
