//@unit c08_surf_encoding
//@property C08
//@file src/engine/core/filter/surf_encoding.rs
//@needs pub fn encode_i64(i: i64) -> Vec<u8> {
//@needs pub fn encode_value(value: &ScalarValue) -> Option<Vec<u8>> {
//@function src/engine/core/filter/surf_encoding.rs::encode_i64
//@function src/engine/core/filter/surf_encoding.rs::encode_u64
//@function src/engine/core/filter/surf_encoding.rs::encode_f64
//@function src/engine/core/filter/surf_encoding.rs::encode_value
//@harness name=order_i64 kind=complete tier=quick timeout=300
//@harness name=order_u64 kind=complete tier=quick timeout=300
//@harness name=order_f64 kind=complete tier=quick timeout=300
//@harness name=value_int_lane kind=complete tier=quick timeout=300
//@harness name=value_float_lanes kind=complete tier=quick timeout=600
//@harness name=value_probe_int_vs_float kind=complete tier=quick timeout=600
//@harness name=value_bool kind=complete tier=quick timeout=300
//@obligation C08.surf_encoding.encode_i64.order_embedding : a < b <=> enc(a) <lex enc(b) and enc is 8 bytes, for all i64 x i64
//@obligation C08.surf_encoding.encode_u64.order_embedding : a < b <=> enc(a) <lex enc(b) and enc is 8 bytes, for all u64 x u64
//@obligation C08.surf_encoding.encode_f64.order_embedding : for all non-NaN a, b: a < b => enc(a) <lex enc(b); enc(a) <lex enc(b) => a <= b
//@obligation C08.surf_encoding.encode_value.int_order : Int64 / Timestamp values (stored) and literals (probe) embed the integer order
//@obligation C08.surf_encoding.encode_value.float_order : two finite Float64 values of one column: x < y => enc(x) <lex enc(y)  [known finding C08-float-lanes excepted]
//@obligation C08.surf_encoding.encode_value.probe_int_vs_float : stored finite Float64 x, probe literal Int64 k: x < k => enc(x) < enc(k) and x > k => enc(x) > enc(k) [known finding C08-float-lanes excepted]
//@obligation C08.surf_encoding.encode_value.bool_order : false < true in the encoding; both encodable

    fn any_non_nan() -> f64 {
        let f: f64 = kani::any();
        kani::assume(!f.is_nan());
        f
    }

    #[kani::proof]
    fn order_i64() {
        let a: i64 = kani::any();
        let b: i64 = kani::any();
        let (ea, eb) = (encode_i64(a), encode_i64(b));
        kani::cover!(a < 0 && b > 0, "COVER:sign_mix");
        assert!(ea.len() == 8 && eb.len() == 8 && (a < b) == (ea < eb) && (a == b) == (ea == eb),
            "OBL:C08.surf_encoding.encode_i64.order_embedding");
    }

    #[kani::proof]
    fn order_u64() {
        let a: u64 = kani::any();
        let b: u64 = kani::any();
        let (ea, eb) = (encode_u64(a), encode_u64(b));
        kani::cover!(a < b, "COVER:lt");
        assert!(ea.len() == 8 && eb.len() == 8 && (a < b) == (ea < eb) && (a == b) == (ea == eb),
            "OBL:C08.surf_encoding.encode_u64.order_embedding");
    }

    #[kani::proof]
    fn order_f64() {
        let a = any_non_nan();
        let b = any_non_nan();
        let (ea, eb) = (encode_f64(a), encode_f64(b));
        kani::cover!(a < 0.0 && b > 0.0, "COVER:sign_mix");
        kani::cover!(a < b && b < 0.0, "COVER:both_negative");
        assert!(ea.len() == 8 && eb.len() == 8 && (!(a < b) || ea < eb) && (!(ea < eb) || a <= b),
            "OBL:C08.surf_encoding.encode_f64.order_embedding");
    }

    #[kani::proof]
    fn value_int_lane() {
        let a: i64 = kani::any();
        let b: i64 = kani::any();
        // every pairing of the two integer kinds (stored Int64 / Timestamp, probe literal Int64 / Timestamp);
        // the variants are concrete so that CBMC does not explore the string arms on a symbolic discriminant
        let pairs = [
            (ScalarValue::Int64(a), ScalarValue::Int64(b)),
            (ScalarValue::Timestamp(a), ScalarValue::Timestamp(b)),
            (ScalarValue::Timestamp(a), ScalarValue::Int64(b)),
            (ScalarValue::Int64(a), ScalarValue::Timestamp(b)),
        ];
        let mut ok = true;
        for (va, vb) in pairs.iter() {
            let (ea, eb) = (encode_value(va), encode_value(vb));
            ok = ok && ea.is_some() && eb.is_some() && (a < b) == (ea.unwrap() < eb.unwrap());
        }
        kani::cover!(a < b, "COVER:lt");
        assert!(ok, "OBL:C08.surf_encoding.encode_value.int_order");
    }

    /// lane the code picks for a finite float: 0 = i64 lane, 1 = u64 lane, 2 = f64 lane
    fn lane(f: f64) -> u8 {
        if f.trunc() == f {
            if f >= (i64::MIN as f64) && f <= (i64::MAX as f64) { 0 } else if f >= 0.0 { 1 } else { 2 }
        } else { 2 }
    }

    #[kani::proof]
    fn value_float_lanes() {
        let x: f64 = kani::any();
        let y: f64 = kani::any();
        kani::assume(x.is_finite() && y.is_finite());
        let ex = encode_value(&ScalarValue::Float64(x));
        let ey = encode_value(&ScalarValue::Float64(y));
        assert!(ex.is_some() && ey.is_some(), "OBL:C08.surf_encoding.encode_value.float_order");
        let post = !(x < y) || ex.unwrap() < ey.unwrap();
        let known_lanes = lane(x) != lane(y); // C08-float-lanes: values of one float column in different byte lanes
        // C08-float-saturation: integral floats >= 2^64 all collapse to u64::MAX by the saturating cast
        let known_sat = lane(x) == 1 && lane(y) == 1 && x >= 18446744073709551616.0;
        kani::cover!(x < y && lane(x) == lane(y), "COVER:same_lane");
        kani::cover!(known_lanes && !post, "KNOWN:C08-float-lanes");
        kani::cover!(known_sat && !post, "KNOWN:C08-float-saturation");
        assert!(known_lanes || known_sat || post, "OBL:C08.surf_encoding.encode_value.float_order");
    }

    #[kani::proof]
    fn value_probe_int_vs_float() {
        let x: f64 = kani::any();
        let k: i64 = kani::any();
        kani::assume(x.is_finite());
        kani::assume(k > -(1i64 << 53) && k < (1i64 << 53)); // literal exactly representable: `k as f64` is exact
        let ex = encode_value(&ScalarValue::Float64(x)).unwrap();
        let ek = encode_value(&ScalarValue::Int64(k)).unwrap();
        let kf = k as f64;
        let post = (!(x < kf) || ex < ek) && (!(x > kf) || ex > ek);
        let known_class = lane(x) != 0; // stored float not in the integer lane
        kani::cover!(lane(x) == 0 && x < kf, "COVER:integral_float");
        kani::cover!(known_class && !post, "KNOWN:C08-float-lanes");
        assert!(known_class || post, "OBL:C08.surf_encoding.encode_value.probe_int_vs_float");
    }

    #[kani::proof]
    fn value_bool() {
        let f = encode_value(&ScalarValue::Boolean(false));
        let t = encode_value(&ScalarValue::Boolean(true));
        kani::cover!(true, "COVER:reached");
        assert!(f.is_some() && t.is_some() && f.unwrap() < t.unwrap(), "OBL:C08.surf_encoding.encode_value.bool_order");
    }
