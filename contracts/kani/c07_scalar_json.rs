//@unit c07_scalar_json
//@property C07
//@file src/engine/types/mod.rs
//@needs pub fn to_json(&self) -> JsonValue {
//@needs impl From<JsonValue> for ScalarValue {
//@function src/engine/types/mod.rs::to_json
//@function src/engine/types/mod.rs::from
//@harness name=int_from_json kind=complete tier=quick timeout=600
//@harness name=int_to_json kind=complete tier=quick timeout=600
//@harness name=null_bool_json_roundtrip kind=complete tier=quick timeout=600
//@harness name=float_from_json kind=complete tier=quick timeout=600
//@harness name=timestamp_to_json kind=complete tier=quick timeout=600
//@obligation C07.scalar_json.int64_from_json : every i64 JSON number becomes exactly ScalarValue::Int64 of that value
//@obligation C07.scalar_json.int64_to_json : every ScalarValue::Int64 is rendered as the JSON integer of that value (not a float, not a string)
//@obligation C07.scalar_json.null_bool_roundtrip : null and booleans survive both conversions
//@obligation C07.scalar_json.float_from_json : every finite JSON float becomes Float64 with the same bits
//@obligation C07.scalar_json.timestamp_renders_as_number : a normalised time is returned as the same integer

    // the two directions are separate harnesses (composing them in one makes the ScalarValue variant symbolic for
    // CBMC, which then explores the string arm with serde_json::from_str): from() yields exactly Int64(i), and
    // to_json() of exactly Int64(i) yields the number i, hence the round trip.
    #[kani::proof]
    #[kani::unwind(4)]
    fn int_from_json() {
        let i: i64 = kani::any();
        let sv = ScalarValue::from(JsonValue::Number(Number::from(i)));
        kani::cover!(i < 0, "COVER:negative");
        assert!(matches!(sv, ScalarValue::Int64(x) if x == i), "OBL:C07.scalar_json.int64_from_json");
    }

    #[kani::proof]
    #[kani::unwind(4)]
    fn int_to_json() {
        let i: i64 = kani::any();
        let j = std::mem::ManuallyDrop::new(ScalarValue::Int64(i).to_json());
        kani::cover!(i < 0, "COVER:negative");
        assert!(j.as_i64() == Some(i) && !j.is_f64(), "OBL:C07.scalar_json.int64_to_json");
    }

    #[kani::proof]
    #[kani::unwind(4)]
    fn null_bool_json_roundtrip() {
        let b: bool = kani::any();
        let sb = ScalarValue::from(JsonValue::Bool(b));
        let sn = ScalarValue::from(JsonValue::Null);
        let jb = std::mem::ManuallyDrop::new(sb.to_json());
        let jn = std::mem::ManuallyDrop::new(sn.to_json());
        kani::cover!(b, "COVER:true");
        assert!(matches!(sb, ScalarValue::Boolean(x) if x == b) && matches!(sn, ScalarValue::Null) && jb.as_bool() == Some(b) && jn.is_null(),
            "OBL:C07.scalar_json.null_bool_roundtrip");
    }

    #[kani::proof]
    #[kani::unwind(4)]
    fn float_from_json() {
        let f: f64 = kani::any();
        kani::assume(f.is_finite());
        let n = Number::from_f64(f).unwrap();
        let sv = ScalarValue::from(JsonValue::Number(n));
        kani::cover!(f < 0.0, "COVER:negative");
        assert!(matches!(sv, ScalarValue::Float64(x) if x.to_bits() == f.to_bits()), "OBL:C07.scalar_json.float_from_json");
    }

    #[kani::proof]
    #[kani::unwind(4)]
    fn timestamp_to_json() {
        let t: i64 = kani::any();
        let j = std::mem::ManuallyDrop::new(ScalarValue::Timestamp(t).to_json());
        kani::cover!(t > 1_700_000_000, "COVER:recent");
        assert!(j.as_i64() == Some(t), "OBL:C07.scalar_json.timestamp_renders_as_number");
    }
