//@unit c10_compare
//@property C10
//@file src/engine/types/mod.rs
//@needs pub fn compare(&self, other: &Self) -> std::cmp::Ordering {
//@function src/engine/types/mod.rs::compare
//@harness name=compare_int64 kind=complete tier=quick timeout=600 stubs=yes
//@harness name=compare_timestamp kind=complete tier=quick timeout=600 stubs=yes
//@harness name=compare_float64 kind=complete tier=quick timeout=600 stubs=yes
//@harness name=compare_bool kind=complete tier=quick timeout=600 stubs=yes
//@obligation C10.compare.int64_is_numeric_order : Int64 x Int64 compares as the integers do (hence total, antisymmetric, transitive), for all pairs
//@obligation C10.compare.timestamp_is_numeric_order : Timestamp x Timestamp compares as the integers do
//@obligation C10.compare.float64_is_numeric_order : non-NaN Float64 x Float64 compares as the floats do
//@obligation C10.compare.bool_order : false < true
//@obligation C10.compare.string_fallback_unreachable : for typed numeric / boolean keys the string-rendering fallback is never reached

    use std::cmp::Ordering;

    fn no_fallback(_v: &ScalarValue) -> String {
        assert!(false, "OBL-UNREACHABLE:C10.compare.string_fallback_unreachable");
        String::new()
    }

    #[kani::proof]
    #[kani::stub(ScalarValue::to_string_repr, no_fallback)]
    fn compare_int64() {
        let (a, b): (i64, i64) = (kani::any(), kani::any());
        let r = ScalarValue::Int64(a).compare(&ScalarValue::Int64(b));
        kani::cover!(a < 0 && b >= 0, "COVER:sign_mix");
        kani::cover!(r == Ordering::Equal, "COVER:equal");
        assert!(r == a.cmp(&b), "OBL:C10.compare.int64_is_numeric_order");
    }

    #[kani::proof]
    #[kani::stub(ScalarValue::to_string_repr, no_fallback)]
    fn compare_timestamp() {
        let (a, b): (i64, i64) = (kani::any(), kani::any());
        let r = ScalarValue::Timestamp(a).compare(&ScalarValue::Timestamp(b));
        kani::cover!(a < 0 && b >= 0, "COVER:sign_mix");
        assert!(r == a.cmp(&b), "OBL:C10.compare.timestamp_is_numeric_order");
    }

    #[kani::proof]
    #[kani::stub(ScalarValue::to_string_repr, no_fallback)]
    fn compare_float64() {
        let (a, b): (f64, f64) = (kani::any(), kani::any());
        kani::assume(!a.is_nan() && !b.is_nan());
        let r = ScalarValue::Float64(a).compare(&ScalarValue::Float64(b));
        kani::cover!(a < 0.0 && b > 0.0, "COVER:sign_mix");
        assert!(Some(r) == a.partial_cmp(&b), "OBL:C10.compare.float64_is_numeric_order");
    }

    #[kani::proof]
    #[kani::stub(ScalarValue::to_string_repr, no_fallback)]
    fn compare_bool() {
        let (a, b): (bool, bool) = (kani::any(), kani::any());
        let r = ScalarValue::Boolean(a).compare(&ScalarValue::Boolean(b));
        kani::cover!(!a && b, "COVER:false_true");
        assert!(r == a.cmp(&b), "OBL:C10.compare.bool_order");
    }
