//@unit c14_high_water
//@property C14
//@file src/engine/materialize/high_water.rs
//@needs pub fn advance(&mut self, timestamp: u64, event_id: u64) {
//@needs pub fn satisfies(&self, timestamp: u64, event_id: u64) -> bool {
//@function src/engine/materialize/high_water.rs::new
//@function src/engine/materialize/high_water.rs::advance
//@function src/engine/materialize/high_water.rs::satisfies
//@function src/engine/materialize/high_water.rs::is_zero
//@insert file=src/engine/materialize/high_water.rs struct=HighWaterMark
//| #[cfg_attr(kani, derive(kani::Arbitrary))]
//@end
//@insert file=src/engine/materialize/high_water.rs fn=HighWaterMark::advance
//| #[cfg_attr(kani, kani::modifies(self))]
//| #[cfg_attr(kani, kani::ensures(|_r| (self.timestamp, self.event_id) == if __verif_c14_high_water::lex_gt(timestamp, event_id, old(self.timestamp), old(self.event_id)) { (timestamp, event_id) } else { (old(self.timestamp), old(self.event_id)) }))]
//@end
//@insert file=src/engine/materialize/high_water.rs fn=HighWaterMark::satisfies
//| #[cfg_attr(kani, kani::ensures(|r: &bool| *r == __verif_c14_high_water::lex_gt(timestamp, event_id, self.timestamp, self.event_id)))]
//@end
//@harness name=advance_contract kind=complete tier=quick timeout=600 contract=C14.high_water.advance.lexicographic_max
//@harness name=satisfies_contract kind=complete tier=quick timeout=600 contract=C14.high_water.satisfies.strictly_after_mark
//@harness name=new_and_zero kind=complete tier=quick timeout=300
//@harness name=delta_partition_two_rows kind=complete tier=quick timeout=600
//@obligation C14.high_water.advance.lexicographic_max : after advance(t,e) the mark is the lexicographic maximum of the old mark and (t,e); nothing else changes (frame: *self)
//@obligation C14.high_water.satisfies.strictly_after_mark : satisfies(t,e) <=> (t,e) is strictly after the mark in (timestamp, event_id) order
//@obligation C14.high_water.new.fields : new(t,e) stores exactly (t,e); is_zero <=> both components are 0
//@obligation C14.high_water.delta_partition : against callee CONTRACTS only (stub_verified): for any mark and any two rows, each row is either covered by the stored frames (key <= mark) or passes the delta filter, never both, and after advancing over the kept rows no kept row passes again (each event exactly once; repeating SHOW returns nothing new)

    /// lexicographic order on (timestamp, event_id), written out independently of tuple comparison
    pub fn lex_gt(t: u64, e: u64, t0: u64, e0: u64) -> bool {
        t > t0 || (t == t0 && e > e0)
    }

    #[kani::proof_for_contract(HighWaterMark::advance)]
    fn advance_contract() {
        let mut m = HighWaterMark { timestamp: kani::any(), event_id: kani::any() };
        let (t, e): (u64, u64) = (kani::any(), kani::any());
        m.advance(t, e);
        kani::cover!(m.timestamp == t && m.event_id == e, "COVER:advanced");
    }

    #[kani::proof_for_contract(HighWaterMark::satisfies)]
    fn satisfies_contract() {
        let m = HighWaterMark { timestamp: kani::any(), event_id: kani::any() };
        let r = m.satisfies(kani::any(), kani::any());
        kani::cover!(r, "COVER:true");
        kani::cover!(!r, "COVER:false");
    }

    #[kani::proof]
    fn new_and_zero() {
        let (t, e): (u64, u64) = (kani::any(), kani::any());
        let m = HighWaterMark::new(t, e);
        kani::cover!(m.is_zero(), "COVER:zero");
        assert!(m.timestamp == t && m.event_id == e && m.is_zero() == (t == 0 && e == 0),
            "OBL:C14.high_water.new.fields");
    }

    /// caller checked against the callee contracts, not their bodies
    #[kani::proof]
    #[kani::stub_verified(HighWaterMark::advance)]
    #[kani::stub_verified(HighWaterMark::satisfies)]
    fn delta_partition_two_rows() {
        let m0 = HighWaterMark { timestamp: kani::any(), event_id: kani::any() };
        let rows: [(u64, u64); 2] = kani::any();
        let mut m = m0;
        let mut ok = true;
        for (t, e) in rows.iter() {
            let stored = !lex_gt(*t, *e, m0.timestamp, m0.event_id); // key <= initial mark: already in a stored frame
            let kept = m0.satisfies(*t, *e);                                   // delta filter compares against the initial mark
            ok = ok && (stored != kept);
            if kept {
                m.advance(*t, *e);
            }
        }
        // second SHOW with no new data: nothing that was kept passes the advanced mark
        for (t, e) in rows.iter() {
            if m0.satisfies(*t, *e) {
                ok = ok && !m.satisfies(*t, *e);
            }
            // and nothing stored earlier re-appears
            if !m0.satisfies(*t, *e) {
                ok = ok && !m.satisfies(*t, *e);
            }
        }
        kani::cover!(m.timestamp != m0.timestamp, "COVER:advanced");
        assert!(ok, "OBL:C14.high_water.delta_partition");
    }
