//@unit c08_calendar_bucket
//@property C08
//@file src/engine/core/time/temporal_calendar_index.rs
//@needs fn bucket_id(ts: u64, gran: TimeGranularity) -> u32 {
//@function src/engine/core/time/temporal_calendar_index.rs::bucket_id
//@harness name=bucket_id_monotone_day kind=bounded bound="timestamps below 2^32 s (year 2106), where the u32 bucket id is lossless" tier=quick timeout=900
//@harness name=bucket_id_monotone_hour kind=bounded bound="timestamps below 2^32 s" tier=quick timeout=900
//@obligation C08.calendar_bucket.day_id_is_monotone_floor : the day bucket id is the bucket start itself and is monotone in ts, so the calendar's `bucket >= start_b` / `<= end_b` range tests never exclude the bucket of a later / earlier timestamp [bounded: ts < 2^32]
//@obligation C08.calendar_bucket.hour_id_is_monotone_floor : same for hour buckets [bounded]

    macro_rules! bucket_id_harness { ($name:ident, $gran:expr, $w:expr, $obl:expr) => {
        #[kani::proof]
        fn $name() {
            let (a, b): (u64, u64) = (kani::any(), kani::any());
            kani::assume(a <= b && b < (1u64 << 32));
            let (ia, ib) = (TemporalCalendarIndex::bucket_id(a, $gran), TemporalCalendarIndex::bucket_id(b, $gran));
            kani::cover!(ia < ib, "COVER:different_buckets");
            kani::cover!(ia == ib && a < b, "COVER:same_bucket");
            assert!(ia <= ib && (ia as u64) <= a && a - (ia as u64) < $w && (ia as u64) % $w == 0, $obl);
        }
    }; }
    bucket_id_harness!(bucket_id_monotone_day, TimeGranularity::Day, 86_400u64, "OBL:C08.calendar_bucket.day_id_is_monotone_floor");
    bucket_id_harness!(bucket_id_monotone_hour, TimeGranularity::Hour, 3600u64, "OBL:C08.calendar_bucket.hour_id_is_monotone_floor");
