//@unit c16_time_pairs
//@property C16
//@file src/shared/time.rs
//@needs fn normalize_integer_epoch(n: i128) -> Option<i64> {
//@needs fn num_digits_u128(mut x: u128) -> u32 {
//@function src/shared/time.rs::normalize_integer_epoch
//@function src/shared/time.rs::num_digits_u128
//@harness name=num_digits_small kind=bounded bound="x < 10^7 (8 loop iterations, unwinding assertion on)" tier=quick timeout=600
//@harness name=epoch_seconds_window kind=complete tier=quick timeout=900 stubs=yes
//@harness name=epoch_millis_window kind=complete tier=quick timeout=900 stubs=yes
//@harness name=epoch_micros_window kind=complete tier=thorough timeout=1800 stubs=yes gate=yes
//@harness name=epoch_nanos_window kind=complete tier=thorough timeout=3600 stubs=yes gate=yes
//@harness name=epoch_rejected_window kind=complete tier=quick timeout=900 stubs=yes
//@obligation C16.time_pairs.num_digits_u128.small_values : counterexample finder paired with the Verus proof: digit count of every x < 10^7 [bounded]
//@obligation C16.time_pairs.normalize_integer_epoch.seconds_window : counterexample finder paired with the Verus proof: for every i128 in the seconds magnitude window the result equals the statement's table (digit loop replaced by its Verus-proved contract)
//@obligation C16.time_pairs.normalize_integer_epoch.millis_window : counterexample finder paired with the Verus proof: for every i128 in the millis magnitude window the result equals the statement's table (digit loop replaced by its Verus-proved contract)
//@obligation C16.time_pairs.normalize_integer_epoch.micros_window : counterexample finder paired with the Verus proof: for every i128 in the micros magnitude window the result equals the statement's table (digit loop replaced by its Verus-proved contract)
//@obligation C16.time_pairs.normalize_integer_epoch.nanos_window : counterexample finder paired with the Verus proof: for every i128 in the nanos magnitude window the result equals the statement's table (digit loop replaced by its Verus-proved contract)
//@obligation C16.time_pairs.normalize_integer_epoch.rejected_window : counterexample finder paired with the Verus proof: for every i128 in the rejected magnitude window the result equals the statement's table (digit loop replaced by its Verus-proved contract)

    /// digit count by comparison table: the contract of num_digits_u128 proved by Verus (unit c16_epoch)
    fn digits_by_table(x: u128) -> u32 {
        let mut p: u128 = 10;
        let mut d: u32 = 1;
        while d < 39 {
            if x < p { return d; }
            p = match p.checked_mul(10) { Some(q) => q, None => return 39 };
            d += 1;
        }
        39
    }

    #[kani::proof]
    #[kani::unwind(9)]
    fn num_digits_small() {
        let x: u128 = kani::any();
        kani::assume(x < 10_000_000);
        let r = num_digits_u128(x);
        let want = if x < 10 { 1 } else if x < 100 { 2 } else if x < 1_000 { 3 } else if x < 10_000 { 4 }
            else if x < 100_000 { 5 } else if x < 1_000_000 { 6 } else { 7 };
        kani::cover!(x >= 1_000_000, "COVER:seven_digits");
        assert!(r == want, "OBL:C16.time_pairs.num_digits_u128.small_values");
    }

    fn window_check(n: i128) -> bool {
        let r = TimeParser::normalize_integer_epoch(n);
        let a = n.unsigned_abs();
        // table from the statement: seconds / milli / micro / nano spellings by decimal magnitude
        let want: Option<i128> = if a < 100_000_000_000 { Some(n) }
            else if a < 100_000_000_000_000 { Some(n / 1_000) }
            else if a < 10_000_000_000_000_000 { Some(n / 1_000_000) }
            else if a < 10_000_000_000_000_000_000 { Some(n / 1_000_000_000) }
            else { None };
        let want64 = match want { Some(s) if s >= i64::MIN as i128 && s <= i64::MAX as i128 => Some(s as i64), _ => None };
        r == want64
    }

    macro_rules! window_harness { ($name:ident, $lo:expr, $hi:expr, $obl:expr) => {
        #[kani::proof]
        #[kani::stub(num_digits_u128, digits_by_table)]
        #[kani::unwind(40)]
        fn $name() {
            let n: i128 = kani::any();
            let a = n.unsigned_abs();
            kani::assume(a >= $lo && a < $hi);
            kani::cover!(n < 0, "COVER:negative");
            kani::cover!(n > 0, "COVER:positive");
            assert!(window_check(n), $obl);
        }
    }; }
    window_harness!(epoch_seconds_window, 0u128, 100_000_000_000u128, "OBL:C16.time_pairs.normalize_integer_epoch.seconds_window");
    window_harness!(epoch_millis_window, 100_000_000_000u128, 100_000_000_000_000u128, "OBL:C16.time_pairs.normalize_integer_epoch.millis_window");
    window_harness!(epoch_micros_window, 100_000_000_000_000u128, 10_000_000_000_000_000u128, "OBL:C16.time_pairs.normalize_integer_epoch.micros_window");
    window_harness!(epoch_nanos_window, 10_000_000_000_000_000u128, 10_000_000_000_000_000_000u128, "OBL:C16.time_pairs.normalize_integer_epoch.nanos_window");
    window_harness!(epoch_rejected_window, 10_000_000_000_000_000_000u128, u128::MAX, "OBL:C16.time_pairs.normalize_integer_epoch.rejected_window");
