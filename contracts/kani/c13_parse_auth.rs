//@unit c13_parse_auth
//@property C13
//@file src/engine/auth/signature.rs
//@rtrace src/engine/auth/signature.rs
//@needs pub fn parse_auth<'a>(input: &'a str) -> AuthResult<(&'a str, &'a str, &'a str)> {
//@needs fn constant_time_eq(a: &[u8], b: &[u8]) -> bool {
//@function src/engine/auth/signature.rs::parse_auth
//@function src/engine/auth/signature.rs::constant_time_eq
//@harness name=parse_auth_frames kind=bounded bound="inputs of 0..=6 symbolic ASCII bytes" tier=quick timeout=1200
//@harness name=constant_time_eq_is_equality kind=bounded bound="slices of 0..=4 symbolic bytes" tier=quick timeout=900
//@obligation C13.parse_auth.reassembles_input : an accepted credential line splits at the first two colons: user ':' signature ':' command re-assemble the input, user id and signature contain no colon, the user id is non-empty and within the length caps
//@obligation C13.parse_auth.rejects_without_two_colons : fewer than two colons or an empty user id is rejected (no request is executed without a user id and a signature field)
//@obligation C13.parse_auth.rejects_only_malformed : a line with two colons is rejected only when its user id is empty (within the harness bound the length caps cannot be exceeded)
//@obligation C13.constant_time_eq.is_slice_equality : signature comparison accepts exactly equal byte strings

    #[kani::proof]
    #[kani::unwind(9)]
    fn parse_auth_frames() {
        let b: [u8; 6] = kani::any();
        let mut i = 0;
        while i < 6 { kani::assume(b[i] < 0x80); i += 1; }
        let len: usize = kani::any();
        kani::assume(len <= 6);
        let s = unsafe { std::str::from_utf8_unchecked(&b[..len]) };
        // first and second colon positions, computed independently
        let mut first: Option<usize> = None;
        let mut second: Option<usize> = None;
        let mut k = 0;
        while k < 6 {
            if k < len && b[k] == b':' {
                if first.is_none() { first = Some(k); } else if second.is_none() { second = Some(k); }
            }
            k += 1;
        }
        let r = parse_auth(s);
        kani::cover!(r.is_ok(), "COVER:accepted");
        kani::cover!(r.is_err() && second.is_some(), "COVER:rejected_with_two_colons");
        match (r, first, second) {
            (Ok((u, sig, cmd)), Some(f), Some(g)) => {
                assert!(u.len() == f && sig.len() == g - f - 1 && cmd.len() == len - g - 1
                    && u.as_ptr() == s.as_ptr() && !u.is_empty() && u.len() <= MAX_USER_ID_LENGTH && sig.len() <= MAX_SIGNATURE_LENGTH,
                    "OBL:C13.parse_auth.reassembles_input");
            }
            (Ok(_), _, _) => assert!(false, "OBL-UNREACHABLE:C13.parse_auth.rejects_without_two_colons"),
            (Err(_), Some(f), Some(_)) => assert!(f == 0, "OBL:C13.parse_auth.rejects_only_malformed"),
            (Err(_), _, _) => {}
        }
    }

    #[kani::proof]
    #[kani::unwind(7)]
    fn constant_time_eq_is_equality() {
        let (a, b): ([u8; 4], [u8; 4]) = (kani::any(), kani::any());
        let (la, lb): (usize, usize) = (kani::any(), kani::any());
        kani::assume(la <= 4 && lb <= 4);
        let r = constant_time_eq(&a[..la], &b[..lb]);
        let mut eq = la == lb;
        let mut i = 0;
        while i < 4 {
            if i < la && i < lb { eq = eq && a[i] == b[i]; }
            i += 1;
        }
        kani::cover!(r && la == 4, "COVER:equal_4");
        assert!(r == eq, "OBL:C13.constant_time_eq.is_slice_equality");
    }
