//@unit c14_value_codec
//@property C14
//@file src/engine/materialize/store/codec/value_codec.rs
//@needs pub fn decode_value_fast<'a>(
//@needs pub fn encode_value(
//@function src/engine/materialize/store/codec/value_codec.rs::encode_value
//@function src/engine/materialize/store/codec/value_codec.rs::decode_value_fast
//@harness name=codec_integer_roundtrip kind=complete tier=quick timeout=900
//@harness name=codec_float_roundtrip kind=complete tier=quick timeout=900
//@harness name=codec_bool_roundtrip kind=complete tier=thorough timeout=1800 gate=yes
//@harness name=codec_short_input_rejected kind=complete tier=quick timeout=900 stubs=yes
//@obligation C14.value_codec.integer_roundtrip : an Int64 / Timestamp cell stored in a materialized frame decodes to the same integer and consumes exactly its 8 bytes, for all i64
//@obligation C14.value_codec.float_roundtrip : finite Float64 cells decode bit-exactly
//@obligation C14.value_codec.bool_roundtrip : Boolean cells decode to the same truth value
//@obligation C14.value_codec.short_input_rejected : truncated frame data is rejected by the fixed-width arms (no panic)

    fn fmt_stub(_args: std::fmt::Arguments<'_>) -> String { String::new() }

    #[kani::proof]
    #[kani::unwind(12)]
    fn codec_integer_roundtrip() {
        let i: i64 = kani::any();
        let tail_byte: u8 = kani::any();
        let mut b1: Vec<u8> = Vec::new();
        let mut b2: Vec<u8> = Vec::new();
        let e1 = ValueCodec::encode_value(&ScalarValue::Int64(i), "Integer", &mut b1).is_ok();
        let e2 = ValueCodec::encode_value(&ScalarValue::Timestamp(i), "Timestamp", &mut b2).is_ok();
        b1.push(tail_byte);
        let d1 = ValueCodec::decode_value_fast(&b1, "Integer");
        let d2 = ValueCodec::decode_value_fast(&b2, "Timestamp");
        kani::cover!(i < 0, "COVER:negative");
        let ok = e1 && e2 && b2.len() == 8
            && match &d1 { Ok((v, rest)) => v.as_i64() == Some(i) && rest.len() == 1 && rest[0] == tail_byte, Err(_) => false }
            && match &d2 { Ok((v, rest)) => v.as_i64() == Some(i) && rest.is_empty(), Err(_) => false };
        std::mem::forget(d1); std::mem::forget(d2);
        assert!(ok, "OBL:C14.value_codec.integer_roundtrip");
    }

    #[kani::proof]
    #[kani::unwind(12)]
    fn codec_float_roundtrip() {
        let f: f64 = kani::any();
        kani::assume(f.is_finite());
        let mut bf: Vec<u8> = Vec::new();
        let e1 = ValueCodec::encode_value(&ScalarValue::Float64(f), "Float", &mut bf).is_ok();
        let d1 = ValueCodec::decode_value_fast(&bf, "Float");
        kani::cover!(f < 0.0, "COVER:negative");
        let ok = e1 && bf.len() == 8
            && match &d1 { Ok((v, rest)) => v.as_f64().map(|x| x.to_bits()) == Some(f.to_bits()) && rest.is_empty(), Err(_) => false };
        std::mem::forget(d1);
        assert!(ok, "OBL:C14.value_codec.float_roundtrip");
    }

    #[kani::proof]
    #[kani::unwind(12)]
    fn codec_bool_roundtrip() {
        let b: bool = kani::any();
        let mut bb: Vec<u8> = Vec::new();
        let e2 = ValueCodec::encode_value(&ScalarValue::Boolean(b), "Boolean", &mut bb).is_ok();
        let d2 = ValueCodec::decode_value_fast(&bb, "Boolean");
        kani::cover!(b, "COVER:true");
        let ok = e2 && bb.len() == 1
            && match &d2 { Ok((v, rest)) => v.as_bool() == Some(b) && rest.is_empty(), Err(_) => false };
        std::mem::forget(d2);
        assert!(ok, "OBL:C14.value_codec.bool_roundtrip");
    }

    #[kani::proof]
    #[kani::stub(alloc::fmt::format, fmt_stub)]
    #[kani::unwind(12)]
    fn codec_short_input_rejected() {
        let bytes: [u8; 7] = kani::any();
        let len: usize = kani::any();
        kani::assume(len <= 7);
        let d1 = ValueCodec::decode_value_fast(&bytes[..len], "Integer");
        let d2 = ValueCodec::decode_value_fast(&bytes[..len], "Float");
        let d3 = ValueCodec::decode_value_fast(&bytes[..0], "Boolean");
        kani::cover!(len == 7, "COVER:one_byte_short");
        let ok = d1.is_err() && d2.is_err() && d3.is_err();
        std::mem::forget(d1); std::mem::forget(d2); std::mem::forget(d3);
        assert!(ok, "OBL:C14.value_codec.short_input_rejected");
    }
