//@unit c07_codecs
//@property C07
//@file src/engine/core/column/format.rs
//@needs pub fn write_to(&self, buf: &mut Vec<u8>) {
//@needs pub fn read_from(slice: &[u8]) -> Option<Self> {
//@function src/engine/core/column/format.rs::write_to
//@function src/engine/core/column/format.rs::read_from
//@function src/engine/core/column/format.rs::new
//@function src/engine/core/column/format.rs::from
//@harness name=header_roundtrip kind=complete tier=quick timeout=600
//@harness name=header_short_slice kind=complete tier=quick timeout=600
//@harness name=physical_tag_roundtrip kind=complete tier=quick timeout=600
//@harness name=header_new_flags kind=complete tier=quick timeout=600
//@obligation C07.codecs.header.write_read_identity : every header (all u8,u8,u16,u32,u32 values) written by write_to is read back field by field by read_from; exactly LEN bytes are appended and earlier bytes are untouched
//@obligation C07.codecs.header.short_slice_rejected : read_from returns None for every slice shorter than LEN (no panic)
//@obligation C07.codecs.physical_type.tag_roundtrip : every PhysicalType survives Into<u8> / From<u8>; unknown tags decode as VarBytes
//@obligation C07.codecs.header.new_sets_null_flag : new() records the physical tag, the null flag bit and both counters

    #[kani::proof]
    #[kani::unwind(16)]
    fn header_roundtrip() {
        let h = ColumnBlockHeader { phys: kani::any(), flags: kani::any(), reserved: kani::any(), row_count: kani::any(), aux_len: kani::any() };
        let prefix: u8 = kani::any();
        let mut buf = vec![prefix];
        h.write_to(&mut buf);
        let ok_len = buf.len() == 1 + ColumnBlockHeader::LEN && buf[0] == prefix;
        let r = ColumnBlockHeader::read_from(&buf[1..]);
        kani::cover!(r.is_some(), "COVER:parsed");
        let same = match r {
            Some(g) => g.phys == h.phys && g.flags == h.flags && g.reserved == h.reserved && g.row_count == h.row_count && g.aux_len == h.aux_len,
            None => false,
        };
        assert!(ok_len && same, "OBL:C07.codecs.header.write_read_identity");
    }

    #[kani::proof]
    #[kani::unwind(16)]
    fn header_short_slice() {
        let bytes: [u8; 11] = kani::any();
        let len: usize = kani::any();
        kani::assume(len <= 11);
        kani::cover!(len == 11, "COVER:one_byte_short");
        assert!(ColumnBlockHeader::read_from(&bytes[..len]).is_none(), "OBL:C07.codecs.header.short_slice_rejected");
    }

    #[kani::proof]
    fn physical_tag_roundtrip() {
        let tag: u8 = kani::any();
        let p = PhysicalType::from(tag);
        let back: u8 = p.into();
        kani::cover!(tag == 5, "COVER:date");
        kani::cover!(tag > 5, "COVER:unknown");
        assert!(if tag <= 5 { back == tag } else { p == PhysicalType::VarBytes && back == 0 }, "OBL:C07.codecs.physical_type.tag_roundtrip");
    }

    #[kani::proof]
    fn header_new_flags() {
        let tag: u8 = kani::any();
        kani::assume(tag <= 5);
        let (nulls, rows, aux): (bool, u32, u32) = (kani::any(), kani::any(), kani::any());
        let h = ColumnBlockHeader::new(PhysicalType::from(tag), nulls, rows, aux);
        kani::cover!(nulls, "COVER:has_nulls");
        assert!(h.phys == tag && ((h.flags & ColumnBlockHeader::FLAG_HAS_NULLS) != 0) == nulls && h.row_count == rows && h.aux_len == aux && h.reserved == 0,
            "OBL:C07.codecs.header.new_sets_null_flag");
    }
