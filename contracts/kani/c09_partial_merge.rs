//@unit c09_partial_merge
//@property C09
//@file src/engine/core/read/aggregate/partial.rs
//@needs pub fn merge(&mut self, other: &AggState) {
//@needs pub fn snapshot_aggregator(agg: &AggregatorImpl) -> AggState {
//@function src/engine/core/read/aggregate/partial.rs::merge
//@function src/engine/core/read/aggregate/partial.rs::snapshot_aggregator
//@harness name=merge_count_sum_avg kind=complete tier=quick timeout=600
//@harness name=merge_min_max_numeric kind=complete tier=quick timeout=600
//@harness name=snapshot_keeps_mergeable_state kind=complete tier=quick timeout=900
//@obligation C09.partial_merge.AggState.additive_arms : merging CountAll / Sum / Avg partial states adds the components (no overflow assumed), for all values
//@obligation C09.partial_merge.AggState.min_max_numeric : merging numeric Min / Max partial states yields the min / max over the options (None is the identity), for all values
//@obligation C09.partial_merge.snapshot.avg_sum_count : the partial state of an AVG aggregator carries (sum, count), of COUNT its count, of TOTAL its sum -- so that merging across shards and tiers stays exact

    fn no_ovf(a: i64, b: i64) -> bool { a.checked_add(b).is_some() }

    #[kani::proof]
    #[kani::unwind(4)]
    fn merge_count_sum_avg() {
        let (a, b, c, d): (i64, i64, i64, i64) = (kani::any(), kani::any(), kani::any(), kani::any());
        kani::assume(no_ovf(a, b) && no_ovf(c, d)); // running sums fit i64
        let mut x = std::mem::ManuallyDrop::new(AggState::CountAll { count: a });
        x.merge(&std::mem::ManuallyDrop::new(AggState::CountAll { count: b }));
        let mut y = std::mem::ManuallyDrop::new(AggState::Sum { sum: a });
        y.merge(&std::mem::ManuallyDrop::new(AggState::Sum { sum: b }));
        let mut z = std::mem::ManuallyDrop::new(AggState::Avg { sum: a, count: c });
        z.merge(&std::mem::ManuallyDrop::new(AggState::Avg { sum: b, count: d }));
        kani::cover!(a < 0 && b > 0, "COVER:sign_mix");
        let ok = matches!(&*x, AggState::CountAll { count } if *count == a + b)
            && matches!(&*y, AggState::Sum { sum } if *sum == a + b)
            && matches!(&*z, AggState::Avg { sum, count } if *sum == a + b && *count == c + d);
        assert!(ok, "OBL:C09.partial_merge.AggState.additive_arms");
    }

    fn opt_min(a: Option<i64>, b: Option<i64>) -> Option<i64> {
        match (a, b) { (Some(x), Some(y)) => Some(if y < x { y } else { x }), (None, y) => y, (x, None) => x }
    }
    fn opt_max(a: Option<i64>, b: Option<i64>) -> Option<i64> {
        match (a, b) { (Some(x), Some(y)) => Some(if y > x { y } else { x }), (None, y) => y, (x, None) => x }
    }

    #[kani::proof]
    #[kani::unwind(4)]
    fn merge_min_max_numeric() {
        let (a, b): (Option<i64>, Option<i64>) = (kani::any(), kani::any());
        let mut mn = std::mem::ManuallyDrop::new(AggState::Min { min_num: a, min_str: None });
        mn.merge(&std::mem::ManuallyDrop::new(AggState::Min { min_num: b, min_str: None }));
        let mut mx = std::mem::ManuallyDrop::new(AggState::Max { max_num: a, max_str: None });
        mx.merge(&std::mem::ManuallyDrop::new(AggState::Max { max_num: b, max_str: None }));
        kani::cover!(a.is_none() && b.is_some(), "COVER:left_empty");
        kani::cover!(a.is_some() && b.is_some(), "COVER:both");
        let ok = matches!(&*mn, AggState::Min { min_num, min_str } if *min_num == opt_min(a, b) && min_str.is_none())
            && matches!(&*mx, AggState::Max { max_num, max_str } if *max_num == opt_max(a, b) && max_str.is_none());
        assert!(ok, "OBL:C09.partial_merge.AggState.min_max_numeric");
    }

    #[kani::proof]
    #[kani::unwind(4)]
    fn snapshot_keeps_mergeable_state() {
        use crate::engine::core::read::aggregate::ops::{Avg, CountAll, Sum};
        let vals: [i64; 2] = kani::any();
        kani::assume(vals[0].checked_add(vals[1]).is_some());
        let mut avg = Avg::new(String::from("f"));
        let mut sum = Sum::new(String::from("f"));
        let mut cnt = CountAll::new();
        for v in vals.iter() {
            avg.update_value_i64(*v);
            sum.update_value_i64(*v);
            cnt.update();
        }
        let sa = std::mem::ManuallyDrop::new(snapshot_aggregator(&std::mem::ManuallyDrop::new(AggregatorImpl::Avg(avg))));
        let ss = std::mem::ManuallyDrop::new(snapshot_aggregator(&std::mem::ManuallyDrop::new(AggregatorImpl::Sum(sum))));
        let sc = std::mem::ManuallyDrop::new(snapshot_aggregator(&std::mem::ManuallyDrop::new(AggregatorImpl::CountAll(cnt))));
        kani::cover!(vals[0] != vals[1], "COVER:distinct");
        let ok = matches!(&*sa, AggState::Avg { sum, count } if *sum == vals[0] + vals[1] && *count == 2)
            && matches!(&*ss, AggState::Sum { sum } if *sum == vals[0] + vals[1])
            && matches!(&*sc, AggState::CountAll { count } if *count == 2);
        assert!(ok, "OBL:C09.partial_merge.snapshot.avg_sum_count");
    }
