//@unit c02_simd_scan
//@property C02
//@file src/engine/core/filter/condition_evaluator.rs
//@needs fn simd_scan_i64(
//@needs fn simd_scan_u64(
//@needs fn simd_scan_f64(
//@function src/engine/core/filter/condition_evaluator.rs::simd_scan_i64
//@function src/engine/core/filter/condition_evaluator.rs::simd_scan_u64
//@function src/engine/core/filter/condition_evaluator.rs::simd_scan_f64
//@harness name=simd_scan_i64_is_the_comparison kind=bounded bound="5 rows (one SIMD chunk of 4 lanes + a scalar tail of 1), fully symbolic values, validity and incoming mask" tier=quick timeout=900
//@harness name=simd_scan_u64_is_the_comparison kind=bounded bound="5 rows (one SIMD chunk of 4 lanes + a scalar tail of 1), fully symbolic values, validity and incoming mask" tier=quick timeout=900
//@harness name=simd_scan_f64_is_the_comparison kind=bounded bound="5 rows (one SIMD chunk of 4 lanes + a scalar tail of 1), non-NaN symbolic values, symbolic validity and incoming mask" tier=quick timeout=900
//@obligation C02.simd_scan.i64 : the vectorised scan used for flushed zones keeps row j iff it was kept before, is valid and `col[j] op literal` holds - the third copy of the numeric comparison (after evaluate_at and evaluate_event_direct) [bounded length]
//@obligation C02.simd_scan.u64 : same for unsigned columns [bounded length]
//@obligation C02.simd_scan.f64 : same for float columns (non-NaN) [bounded length]

    use super::super::condition::CompareOp as COp;

    fn any_op() -> (COp, u8) {
        let k: u8 = kani::any();
        kani::assume(k < 6);
        (match k { 0 => COp::Gt, 1 => COp::Gte, 2 => COp::Lt, 3 => COp::Lte, 4 => COp::Eq, _ => COp::Neq }, k)
    }

    #[kani::proof]
    #[kani::unwind(7)]
    fn simd_scan_i64_is_the_comparison() {
        let col: [i64; 5] = kani::any();
        let valid: [bool; 5] = kani::any();
        let mask0: [bool; 5] = kani::any();
        let v: i64 = kani::any();
        let (op, k) = any_op();
        let mut mask = mask0;
        simd_scan_i64(&col, &valid, v, op, &mut mask);
        let mut ok = true;
        let mut j = 0;
        while j < 5 {
            let cmp = match k { 0 => col[j] > v, 1 => col[j] >= v, 2 => col[j] < v, 3 => col[j] <= v, 4 => col[j] == v, _ => col[j] != v };
            ok = ok && (mask[j] == (mask0[j] && valid[j] && cmp));
            j += 1;
        }
        kani::cover!(mask[4] && mask[0], "COVER:chunk_and_tail_rows_kept");
        assert!(ok, "OBL:C02.simd_scan.i64");
    }

    #[kani::proof]
    #[kani::unwind(7)]
    fn simd_scan_u64_is_the_comparison() {
        let col: [u64; 5] = kani::any();
        let valid: [bool; 5] = kani::any();
        let mask0: [bool; 5] = kani::any();
        let v: u64 = kani::any();
        let (op, k) = any_op();
        let mut mask = mask0;
        simd_scan_u64(&col, &valid, v, op, &mut mask);
        let mut ok = true;
        let mut j = 0;
        while j < 5 {
            let cmp = match k { 0 => col[j] > v, 1 => col[j] >= v, 2 => col[j] < v, 3 => col[j] <= v, 4 => col[j] == v, _ => col[j] != v };
            ok = ok && (mask[j] == (mask0[j] && valid[j] && cmp));
            j += 1;
        }
        assert!(ok, "OBL:C02.simd_scan.u64");
    }

    #[kani::proof]
    #[kani::unwind(7)]
    fn simd_scan_f64_is_the_comparison() {
        let col: [f64; 5] = kani::any();
        let valid: [bool; 5] = kani::any();
        let mask0: [bool; 5] = kani::any();
        let v: f64 = kani::any();
        kani::assume(!v.is_nan() && !col[0].is_nan() && !col[1].is_nan() && !col[2].is_nan() && !col[3].is_nan() && !col[4].is_nan());
        let (op, k) = any_op();
        let mut mask = mask0;
        simd_scan_f64(&col, &valid, v, op, &mut mask);
        let mut ok = true;
        let mut j = 0;
        while j < 5 {
            let cmp = match k { 0 => col[j] > v, 1 => col[j] >= v, 2 => col[j] < v, 3 => col[j] <= v, 4 => col[j] == v, _ => col[j] != v };
            ok = ok && (mask[j] == (mask0[j] && valid[j] && cmp));
            j += 1;
        }
        assert!(ok, "OBL:C02.simd_scan.f64");
    }
