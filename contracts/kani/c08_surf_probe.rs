//@unit c08_surf_probe
//@property C08
//@file src/engine/core/filter/zone_surf_filter.rs
//@rtrace src/engine/core/filter/zone_surf_filter.rs
//@needs fn may_overlap_ge_with_stats(&self, lower: &[u8], inclusive: bool) -> (bool, SurfProbeStats) {
//@needs fn may_overlap_le_with_stats(&self, upper: &[u8], inclusive: bool) -> (bool, SurfProbeStats) {
//@function src/engine/core/filter/zone_surf_filter.rs::may_overlap_ge_with_stats
//@function src/engine/core/filter/zone_surf_filter.rs::may_overlap_le_with_stats
//@function src/engine/core/filter/zone_surf_filter.rs::find_first_key_geq_with_stats
//@function src/engine/core/filter/zone_surf_filter.rs::find_last_key_leq_with_stats
//@function src/engine/core/filter/zone_surf_filter.rs::find_first_key
//@function src/engine/core/filter/zone_surf_filter.rs::find_last_key
//@harness name=probe_two_keys_shared_prefix_ge kind=bounded bound="trie of 2 keys x 2 bytes sharing the first byte; probe of 2 symbolic bytes" tier=quick timeout=1200
//@harness name=probe_two_keys_shared_prefix_le kind=bounded bound="trie of 2 keys x 2 bytes sharing the first byte; probe of 2 symbolic bytes" tier=quick timeout=1200
//@harness name=probe_two_keys_distinct_prefix_ge kind=bounded bound="trie of 2 keys x 2 bytes with distinct first bytes; probe of 2 symbolic bytes" tier=quick timeout=1200
//@harness name=probe_two_keys_distinct_prefix_le kind=bounded bound="trie of 2 keys x 2 bytes with distinct first bytes; probe of 2 symbolic bytes" tier=quick timeout=1200
//@harness name=probe_three_keys_aab_ge kind=bounded bound="trie of 3 keys x 2 bytes, shape (a,a,b); probe of 2 symbolic bytes" tier=thorough timeout=3600 gate=yes
//@harness name=probe_three_keys_aab_le kind=bounded bound="trie of 3 keys x 2 bytes, shape (a,a,b); probe of 2 symbolic bytes" tier=thorough timeout=3600 gate=yes
//@harness name=probe_three_keys_abb_ge kind=bounded bound="trie of 3 keys x 2 bytes, shape (a,b,b); probe of 2 symbolic bytes" tier=thorough timeout=3600 gate=yes
//@harness name=probe_three_keys_abb_le kind=bounded bound="trie of 3 keys x 2 bytes, shape (a,b,b); probe of 2 symbolic bytes" tier=thorough timeout=3600 gate=yes
//@harness name=probe_two_keys_three_bytes_ge kind=bounded bound="trie of 2 keys x 3 bytes with distinct symbolic first bytes (a single-child node below each branch), first key fully symbolic, lower bytes of the second key fixed; probe of 3 symbolic bytes" tier=thorough timeout=3600 gate=yes
//@harness name=probe_two_keys_three_bytes_le kind=bounded bound="trie of 2 keys x 3 bytes with distinct symbolic first bytes (a single-child node below each branch), second key fully symbolic, lower bytes of the first key fixed; probe of 3 symbolic bytes" tier=thorough timeout=3600 gate=yes
//@obligation C08.surf_probe.ge_sound : whenever some key of the zone is >= (inclusive) or > (exclusive) the lower bound, may_overlap_ge reports the zone [bounded shapes]
//@obligation C08.surf_probe.le_sound : whenever some key of the zone is <= (inclusive) or < (exclusive) the upper bound, may_overlap_le reports the zone [bounded shapes]

    // The trie is laid out by the harness exactly as SurfTrie::build_from_sorted lays out fixed-length keys
    // (BFS node order, labels in ascending order per node, leaves terminal).  The real builder cannot be executed
    // by CBMC (BTreeMap + HashMap); that its output has this layout is ASSUMED here and was compared natively on
    // sample keys (DESIGN §4A C08).  What is proved is the probe walk over every trie of the shape and every probe.

    fn trie(degrees: Vec<u16>, child_offsets: Vec<u32>, labels: Vec<u8>, edge_to_child: Vec<u32>, terminal: Vec<u8>) -> std::mem::ManuallyDrop<SurfTrie> {
        std::mem::ManuallyDrop::new(SurfTrie { degrees, child_offsets, labels, edge_to_child, is_terminal_bits: terminal })
    }

    fn check_ge(t: &SurfTrie, keys: &[[u8; 2]]) {
        let p: [u8; 2] = kani::any();
        let q = SurfQuery { trie: t };
        let mut any_ge = false; let mut any_gt = false;
        for k in keys.iter() {
            any_ge = any_ge || *k >= p;
            any_gt = any_gt || *k > p;
        }
        let ge_incl = q.may_overlap_ge_with_stats(&p, true).0;
        let ge_excl = q.may_overlap_ge_with_stats(&p, false).0;
        kani::cover!(any_ge && !any_gt, "COVER:probe_equals_max_key");
        kani::cover!(!any_ge, "COVER:probe_above_all");
        assert!((!any_ge || ge_incl) && (!any_gt || ge_excl), "OBL:C08.surf_probe.ge_sound");
    }

    fn check_le(t: &SurfTrie, keys: &[[u8; 2]]) {
        let p: [u8; 2] = kani::any();
        let q = SurfQuery { trie: t };
        let mut any_le = false; let mut any_lt = false;
        for k in keys.iter() {
            any_le = any_le || *k <= p;
            any_lt = any_lt || *k < p;
        }
        let le_incl = q.may_overlap_le_with_stats(&p, true).0;
        let le_excl = q.may_overlap_le_with_stats(&p, false).0;
        kani::cover!(any_le && !any_lt, "COVER:probe_equals_min_key");
        kani::cover!(!any_le, "COVER:probe_below_all");
        assert!((!any_le || le_incl) && (!any_lt || le_excl), "OBL:C08.surf_probe.le_sound");
    }

    #[kani::proof]
    #[kani::unwind(6)]
    fn probe_two_keys_shared_prefix_ge() {
        let (a, x, y): (u8, u8, u8) = (kani::any(), kani::any(), kani::any());
        kani::assume(x < y);
        // root -a-> n1 ; n1 -x-> leaf2, -y-> leaf3
        let t = trie(vec![1, 2, 0, 0], vec![0, 1, 3, 3], vec![a, x, y], vec![1, 2, 3], vec![0b0000_1100]);
        check_ge(&t, &[[a, x], [a, y]]);
    }

    #[kani::proof]
    #[kani::unwind(6)]
    fn probe_two_keys_shared_prefix_le() {
        let (a, x, y): (u8, u8, u8) = (kani::any(), kani::any(), kani::any());
        kani::assume(x < y);
        // root -a-> n1 ; n1 -x-> leaf2, -y-> leaf3
        let t = trie(vec![1, 2, 0, 0], vec![0, 1, 3, 3], vec![a, x, y], vec![1, 2, 3], vec![0b0000_1100]);
        check_le(&t, &[[a, x], [a, y]]);
    }

    #[kani::proof]
    #[kani::unwind(6)]
    fn probe_two_keys_distinct_prefix_ge() {
        let (a, b, x, y): (u8, u8, u8, u8) = (kani::any(), kani::any(), kani::any(), kani::any());
        kani::assume(a < b);
        // root -a-> n1, -b-> n2 ; n1 -x-> leaf3 ; n2 -y-> leaf4
        let t = trie(vec![2, 1, 1, 0, 0], vec![0, 2, 3, 4, 4], vec![a, b, x, y], vec![1, 2, 3, 4], vec![0b0001_1000]);
        check_ge(&t, &[[a, x], [b, y]]);
    }

    #[kani::proof]
    #[kani::unwind(6)]
    fn probe_two_keys_distinct_prefix_le() {
        let (a, b, x, y): (u8, u8, u8, u8) = (kani::any(), kani::any(), kani::any(), kani::any());
        kani::assume(a < b);
        // root -a-> n1, -b-> n2 ; n1 -x-> leaf3 ; n2 -y-> leaf4
        let t = trie(vec![2, 1, 1, 0, 0], vec![0, 2, 3, 4, 4], vec![a, b, x, y], vec![1, 2, 3, 4], vec![0b0001_1000]);
        check_le(&t, &[[a, x], [b, y]]);
    }

    #[kani::proof]
    #[kani::unwind(7)]
    fn probe_three_keys_aab_ge() {
        let (a, b, x, y, z): (u8, u8, u8, u8, u8) = (kani::any(), kani::any(), kani::any(), kani::any(), kani::any());
        kani::assume(a < b && x < y);
        // root -a-> n1, -b-> n2 ; n1 -x-> leaf3, -y-> leaf4 ; n2 -z-> leaf5
        let t = trie(vec![2, 2, 1, 0, 0, 0], vec![0, 2, 4, 5, 5, 5], vec![a, b, x, y, z], vec![1, 2, 3, 4, 5], vec![0b0011_1000]);
        check_ge(&t, &[[a, x], [a, y], [b, z]]);
    }

    #[kani::proof]
    #[kani::unwind(7)]
    fn probe_three_keys_aab_le() {
        let (a, b, x, y, z): (u8, u8, u8, u8, u8) = (kani::any(), kani::any(), kani::any(), kani::any(), kani::any());
        kani::assume(a < b && x < y);
        // root -a-> n1, -b-> n2 ; n1 -x-> leaf3, -y-> leaf4 ; n2 -z-> leaf5
        let t = trie(vec![2, 2, 1, 0, 0, 0], vec![0, 2, 4, 5, 5, 5], vec![a, b, x, y, z], vec![1, 2, 3, 4, 5], vec![0b0011_1000]);
        check_le(&t, &[[a, x], [a, y], [b, z]]);
    }

    #[kani::proof]
    #[kani::unwind(7)]
    fn probe_three_keys_abb_ge() {
        let (a, b, x, y, z): (u8, u8, u8, u8, u8) = (kani::any(), kani::any(), kani::any(), kani::any(), kani::any());
        kani::assume(a < b && y < z);
        // root -a-> n1, -b-> n2 ; n1 -x-> leaf3 ; n2 -y-> leaf4, -z-> leaf5
        let t = trie(vec![2, 1, 2, 0, 0, 0], vec![0, 2, 3, 5, 5, 5], vec![a, b, x, y, z], vec![1, 2, 3, 4, 5], vec![0b0011_1000]);
        check_ge(&t, &[[a, x], [b, y], [b, z]]);
    }

    #[kani::proof]
    #[kani::unwind(7)]
    fn probe_three_keys_abb_le() {
        let (a, b, x, y, z): (u8, u8, u8, u8, u8) = (kani::any(), kani::any(), kani::any(), kani::any(), kani::any());
        kani::assume(a < b && y < z);
        // root -a-> n1, -b-> n2 ; n1 -x-> leaf3 ; n2 -y-> leaf4, -z-> leaf5
        let t = trie(vec![2, 1, 2, 0, 0, 0], vec![0, 2, 3, 5, 5, 5], vec![a, b, x, y, z], vec![1, 2, 3, 4, 5], vec![0b0011_1000]);
        check_le(&t, &[[a, x], [b, y], [b, z]]);
    }

    fn check3_ge(t: &SurfTrie, keys: &[[u8; 3]]) {
        let p: [u8; 3] = kani::any();
        let q = SurfQuery { trie: t };
        let mut any_incl = false; let mut any_excl = false;
        for k in keys.iter() { any_incl = any_incl || *k >= p; any_excl = any_excl || *k > p; }
        let incl = q.may_overlap_ge_with_stats(&p, true).0;
        let excl = q.may_overlap_ge_with_stats(&p, false).0;
        kani::cover!(any_incl && p[0] == keys[0][0] && p[1] == keys[0][1] && p[2] > keys[0][2], "COVER:probe_leaves_the_first_key_at_the_last_byte");
        assert!((!any_incl || incl) && (!any_excl || excl), "OBL:C08.surf_probe.ge_sound");
    }

    fn check3_le(t: &SurfTrie, keys: &[[u8; 3]]) {
        let p: [u8; 3] = kani::any();
        let q = SurfQuery { trie: t };
        let mut any_incl = false; let mut any_excl = false;
        for k in keys.iter() { any_incl = any_incl || *k <= p; any_excl = any_excl || *k < p; }
        let incl = q.may_overlap_le_with_stats(&p, true).0;
        let excl = q.may_overlap_le_with_stats(&p, false).0;
        kani::cover!(any_incl && p[0] == keys[1][0] && p[1] == keys[1][1] && p[2] < keys[1][2], "COVER:probe_leaves_the_last_key_at_the_last_byte");
        assert!((!any_incl || incl) && (!any_excl || excl), "OBL:C08.surf_probe.le_sound");
    }

    // root -a-> n1, -b-> n2 ; n1 -x-> n3 ; n2 -y-> n4 ; n3 -u-> leaf5 ; n4 -v-> leaf6
    // (a probe that follows a, x and then finds no edge on its side must resume at the ROOT, two levels up)
    fn trie_two_by_three(a: u8, b: u8, x: u8, y: u8, u: u8, v: u8) -> std::mem::ManuallyDrop<SurfTrie> {
        trie(vec![2, 1, 1, 1, 1, 0, 0], vec![0, 2, 3, 4, 5, 6, 6], vec![a, b, x, y, u, v], vec![1, 2, 3, 4, 5, 6], vec![0b0110_0000])
    }

    #[kani::proof]
    #[kani::unwind(8)]
    fn probe_two_keys_three_bytes_ge() {
        // the lower bytes of the SECOND key are fixed: for a lower-bound probe the walk that matters follows the first key
        let (a, b, x, u): (u8, u8, u8, u8) = (kani::any(), kani::any(), kani::any(), kani::any());
        let (y, v): (u8, u8) = (0x11, 0x70);
        kani::assume(a < b);
        let t = trie_two_by_three(a, b, x, y, u, v);
        check3_ge(&t, &[[a, x, u], [b, y, v]]);
    }

    #[kani::proof]
    #[kani::unwind(8)]
    fn probe_two_keys_three_bytes_le() {
        // the lower bytes of the FIRST key are fixed: for an upper-bound probe the walk that matters follows the second key
        let (a, b, y, v): (u8, u8, u8, u8) = (kani::any(), kani::any(), kani::any(), kani::any());
        let (x, u): (u8, u8) = (0x01, 0x2c);
        kani::assume(a < b);
        let t = trie_two_by_three(a, b, x, y, u, v);
        check3_le(&t, &[[a, x, u], [b, y, v]]);
    }
