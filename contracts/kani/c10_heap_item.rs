//@unit c10_heap_item
//@property C10
//@file src/engine/core/read/flow/ordered_merger.rs
//@rtrace src/engine/core/read/flow/ordered_merger.rs
//@needs fn compare_scalar_values(a: &ScalarValue, b: &ScalarValue) -> Ordering {
//@needs impl Ord for HeapItem {
//@function src/engine/core/read/flow/ordered_merger.rs::cmp
//@function src/engine/core/read/flow/ordered_merger.rs::compare_scalar_values
//@harness name=heap_pops_in_order_int kind=complete tier=quick timeout=900
//@harness name=heap_pops_in_order_float kind=complete tier=quick timeout=900
//@obligation C10.heap_item.pop_order_int : BinaryHeap is a max-heap: with ascending order the item with the SMALLER integer key is the greater heap item, with descending the larger; cmp is antisymmetric and Equal only for the same shard with equal keys
//@obligation C10.heap_item.pop_order_float : same for non-NaN float keys

    fn item(shard: usize, key: ScalarValue, ascending: bool) -> std::mem::ManuallyDrop<HeapItem> {
        std::mem::ManuallyDrop::new(HeapItem { shard_idx: shard, row: vec![ScalarValue::Null, key], order_index: 1, ascending })
    }

    #[kani::proof]
    #[kani::unwind(4)]
    fn heap_pops_in_order_int() {
        let (ka, kb): (i64, i64) = (kani::any(), kani::any());
        let (sa, sb): (usize, usize) = (kani::any(), kani::any());
        kani::assume(sa < 1024 && sb < 1024);
        let asc: bool = kani::any();
        let x = item(sa, ScalarValue::Int64(ka), asc);
        let y = item(sb, ScalarValue::Int64(kb), asc);
        let (xy, yx) = (x.cmp(&y), y.cmp(&x));
        kani::cover!(asc && ka < kb, "COVER:ascending_smaller");
        kani::cover!(!asc && ka < kb, "COVER:descending_smaller");
        let order_ok = if ka < kb { xy == if asc { Ordering::Greater } else { Ordering::Less } }
            else if ka > kb { xy == if asc { Ordering::Less } else { Ordering::Greater } }
            else { (xy == Ordering::Equal) == (sa == sb) };
        assert!(order_ok && xy == yx.reverse(), "OBL:C10.heap_item.pop_order_int");
    }

    #[kani::proof]
    #[kani::unwind(4)]
    fn heap_pops_in_order_float() {
        let (ka, kb): (f64, f64) = (kani::any(), kani::any());
        kani::assume(!ka.is_nan() && !kb.is_nan());
        let (sa, sb): (usize, usize) = (kani::any(), kani::any());
        kani::assume(sa < 1024 && sb < 1024);
        let asc: bool = kani::any();
        let x = item(sa, ScalarValue::Float64(ka), asc);
        let y = item(sb, ScalarValue::Float64(kb), asc);
        let (xy, yx) = (x.cmp(&y), y.cmp(&x));
        kani::cover!(asc && ka < kb, "COVER:ascending_smaller");
        let order_ok = if ka < kb { xy == if asc { Ordering::Greater } else { Ordering::Less } }
            else if ka > kb { xy == if asc { Ordering::Less } else { Ordering::Greater } }
            else { (xy == Ordering::Equal) == (sa == sb) };
        assert!(order_ok && xy == yx.reverse(), "OBL:C10.heap_item.pop_order_float");
    }
