// GENERATED on every run by tools/verus_run.py from /repo and contracts/verus/c08_calendar_dir.spec
use vstd::prelude::*;
verus! {


pub enum TimeGranularity {
    Hour,
    Day,
    Week,
    Month,
    Year,
}
pub struct CalendarDir {
    pub day: HashMap<u32, RoaringBitmap>,
    pub hour: HashMap<u32, RoaringBitmap>,
}

impl CalendarDir {
    pub fn bucket_id(ts: u64, gran: TimeGranularity) -> (r: u32)
     ensures r == slot(floor_to(ts as int, width(gran))), // OBL:C08.calendar_dir.bucket_id.is_the_slot_of_the_bucket_start
{
        let start = naive_bucket_of(ts, &gran);
        (start & u32::MAX as u64) as u32
    }

    pub fn add_zone_range(&mut self, zone_id: u32, min_ts: u64, max_ts: u64)
     requires max_ts < u64::MAX - 100_000
     ensures
         forall|ts: int| min_ts <= ts <= max_ts ==> has(mview(final(self).hour), slot(#[trigger] floor_to(ts, 3600)), zone_id), // OBL:C08.calendar_dir.add_zone_range.every_hour_of_the_range_lists_the_zone
         forall|ts: int| min_ts <= ts <= max_ts ==> has(mview(final(self).day), slot(#[trigger] floor_to(ts, 86_400)), zone_id), // OBL:C08.calendar_dir.add_zone_range.every_day_of_the_range_lists_the_zone
         forall|b: u32, z: u32| has(mview(old(self).hour), b, z) ==> has(mview(final(self).hour), b, z), // OBL:C08.calendar_dir.add_zone_range.no_hour_entry_is_lost
         forall|b: u32, z: u32| has(mview(old(self).day), b, z) ==> has(mview(final(self).day), b, z), // OBL:C08.calendar_dir.add_zone_range.no_day_entry_is_lost
{
        // Hour buckets
        let mut t = naive_bucket_of(min_ts, &TimeGranularity::Hour);
        let end = naive_bucket_of(max_ts, &TimeGranularity::Hour);
        while t <= end 
             invariant
                 t as int % 3600 == 0, floor_to(min_ts as int, 3600) <= t, t == floor_to(min_ts as int, 3600) || t <= end + 3600,
                 end == floor_to(max_ts as int, 3600), end as int % 3600 == 0, end <= max_ts, max_ts < u64::MAX - 100_000,
                 forall|k: int| floor_to(min_ts as int, 3600) <= k < t && k % 3600 == 0 ==> has(mview(self.hour), #[trigger] slot(k), zone_id),
                 forall|b: u32, z: u32| has(mview(old(self).hour), b, z) ==> has(mview(self.hour), b, z),
                 self.day == old(self).day,
             decreases end + 3600 - t
{
             let ghost h0 = mview(self.hour); let ghost t0 = t;
             proof { lemma_aligned_floor(t as int, 3600); }

            let b = Self::bucket_id(t, TimeGranularity::Hour);
            self.hour.entry(b).or_default().insert(zone_id);
            t += 3600;
        
             proof {
                 assert(forall|bb: u32, z: u32| has(h0, bb, z) ==> has(mview(self.hour), bb, z));
                 assert(has(mview(self.hour), slot(t0 as int), zone_id));
                 assert forall|k: int| floor_to(min_ts as int, 3600) <= k < t0 + 3600 && k % 3600 == 0 implies has(mview(self.hour), #[trigger] slot(k), zone_id) by {
                     if k >= t0 { lemma_between(k, t0 as int, 3600); }
                 }
             }
}
         proof { lemma_cover(min_ts as int, max_ts as int, 3600); }

        // Day buckets: mark both min and max days inclusive, even if same day
        let start_day = naive_bucket_of(min_ts, &TimeGranularity::Day);
        let end_day = naive_bucket_of(max_ts, &TimeGranularity::Day);
        let mut td = start_day;
        while td <= end_day 
             invariant
                 td as int % 86_400 == 0, floor_to(min_ts as int, 86_400) <= td, td == floor_to(min_ts as int, 86_400) || td <= end_day + 86_400,
                 end_day == floor_to(max_ts as int, 86_400), end_day as int % 86_400 == 0, end_day <= max_ts, max_ts < u64::MAX - 100_000,
                 forall|k: int| floor_to(min_ts as int, 86_400) <= k < td && k % 86_400 == 0 ==> has(mview(self.day), #[trigger] slot(k), zone_id),
                 forall|b: u32, z: u32| has(mview(old(self).day), b, z) ==> has(mview(self.day), b, z),
                 forall|ts: int| min_ts <= ts <= max_ts ==> has(mview(self.hour), slot(#[trigger] floor_to(ts, 3600)), zone_id),
                 forall|b: u32, z: u32| has(mview(old(self).hour), b, z) ==> has(mview(self.hour), b, z),
             decreases end_day + 86_400 - td
{
             let ghost d0 = mview(self.day); let ghost t0 = td;
             proof { lemma_aligned_floor(td as int, 86_400); }

            let b = Self::bucket_id(td, TimeGranularity::Day);
            self.day.entry(b).or_default().insert(zone_id);
            td += 86_400;
        
             proof {
                 assert(forall|bb: u32, z: u32| has(d0, bb, z) ==> has(mview(self.day), bb, z));
                 assert(has(mview(self.day), slot(t0 as int), zone_id));
                 assert forall|k: int| floor_to(min_ts as int, 86_400) <= k < t0 + 86_400 && k % 86_400 == 0 implies has(mview(self.day), #[trigger] slot(k), zone_id) by {
                     if k >= t0 { lemma_between(k, t0 as int, 86_400); }
                 }
             }
}
         proof { lemma_cover(min_ts as int, max_ts as int, 86_400); }

    }

}

// ---- spec functions and lemmas from the contract file ----
// ---- TRUSTED declarations: HashMap<u32, RoaringBitmap> seen through `mview`, entry(..).or_default() with a prophecy for
// ---- the borrow, RoaringBitmap seen through `bits` with `insert`, and `naive_bucket_of` external with the contract
// ---- proved in unit c16_bucket (plus its consequence r == floor, lemma_unique).
// ---- What the lookup side reads: zones_for_ts looks up slot(floor(ts, 3600)) in `hour`, then slot(floor(ts, 86400)) in
// ---- `day`; the obligations say that both hold the zone for every instant the zone covers. (The u32 truncation in
// ---- `slot` is applied identically on both sides.)
#[verifier::external_body]
#[verifier::reject_recursive_types(K)]
#[verifier::reject_recursive_types(V)]
pub struct HashMap<K, V> { _p: core::marker::PhantomData<(K, V)> }
#[verifier::external_body]
#[verifier::reject_recursive_types(K)]
#[verifier::reject_recursive_types(V)]
pub struct Entry<'a, K, V> { _p: core::marker::PhantomData<&'a mut (K, V)> }
#[verifier::external_body]
pub struct RoaringBitmap { _p: core::marker::PhantomData<()> }
pub uninterp spec fn bits(b: RoaringBitmap) -> Set<u32>;
pub uninterp spec fn mview(m: HashMap<u32, RoaringBitmap>) -> Map<u32, RoaringBitmap>;
pub uninterp spec fn e_key(e: Entry<u32, RoaringBitmap>) -> u32;
pub uninterp spec fn e_before(e: Entry<u32, RoaringBitmap>) -> Map<u32, RoaringBitmap>;
pub uninterp spec fn e_after(e: Entry<u32, RoaringBitmap>) -> Map<u32, RoaringBitmap>;
impl HashMap<u32, RoaringBitmap> {
    #[verifier::external_body]
    pub fn entry(&mut self, k: u32) -> (e: Entry<'_, u32, RoaringBitmap>)
        ensures e_key(e) == k, e_before(e) == mview(*old(self)), e_after(e) == mview(*final(self)),
    { unimplemented!() }
}
impl<'a> Entry<'a, u32, RoaringBitmap> {
    #[verifier::external_body]
    pub fn or_default(self) -> (r: &'a mut RoaringBitmap)
        ensures bits(*r) == (if e_before(self).contains_key(e_key(self)) { bits(e_before(self)[e_key(self)]) } else { Set::<u32>::empty() }),
                e_after(self) == e_before(self).insert(e_key(self), *final(r)),
    { unimplemented!() }
}
#[verifier::external_body]
#[verifier::reject_recursive_types(K)]
#[verifier::reject_recursive_types(V)]
pub struct Iter<'a, K, V> { _p: core::marker::PhantomData<&'a (K, V)> }
pub uninterp spec fn entries<K, V>(m: &HashMap<K, V>) -> Seq<(&K, &V)>;
impl<'a, K, V> Iterator for Iter<'a, K, V> {
    type Item = (&'a K, &'a V);
    #[verifier::external_body]
    fn next(&mut self) -> Option<(&'a K, &'a V)> { unimplemented!() }
}
impl<'a, K, V> vstd::std_specs::iter::IteratorSpecImpl for Iter<'a, K, V> {
    open spec fn obeys_prophetic_iter_laws(&self) -> bool { true }
    #[verifier::prophetic]
    uninterp spec fn remaining(&self) -> Seq<Self::Item>;
    #[verifier::prophetic]
    uninterp spec fn will_return_none(&self) -> bool;
    uninterp spec fn decrease(&self) -> Option<nat>;
    uninterp spec fn peek(&self, index: int) -> Option<Self::Item>;
}
impl<'a, K, V> IntoIterator for &'a HashMap<K, V> {
    type Item = (&'a K, &'a V);
    type IntoIter = Iter<'a, K, V>;
    #[verifier::external_body]
    fn into_iter(self) -> (r: Iter<'a, K, V>)
        ensures vstd::std_specs::iter::IteratorSpec::decrease(&r) is Some, vstd::std_specs::iter::IteratorSpec::remaining(&r) == entries(self)
    { unimplemented!() }
}
/// the listing the iteration yields is exactly the map: every key once, with its value
pub axiom fn axiom_entries(m: &HashMap<u32, RoaringBitmap>)
    ensures
        forall|i: int| 0 <= i < entries(m).len() ==> mview(*m).contains_key(*(#[trigger] entries(m)[i]).0) && mview(*m)[*entries(m)[i].0] == *entries(m)[i].1,
        forall|k: u32| mview(*m).contains_key(k) ==> exists|i: int| 0 <= i < entries(m).len() && *(#[trigger] entries(m)[i]).0 == k;
impl HashMap<u32, RoaringBitmap> {
    #[verifier::external_body]
    pub fn get(&self, k: &u32) -> (r: Option<&RoaringBitmap>)
        ensures r is Some == mview(*self).contains_key(*k), r is Some ==> *(r->Some_0) == mview(*self)[*k]
    { unimplemented!() }
}
impl Clone for RoaringBitmap {
    #[verifier::external_body]
    fn clone(&self) -> (r: Self) ensures bits(r) == bits(*self) { unimplemented!() }
}
pub uninterp spec fn rb_union(a: RoaringBitmap, b: RoaringBitmap) -> RoaringBitmap;
pub axiom fn axiom_rb_union(a: RoaringBitmap, b: RoaringBitmap)
    ensures bits(rb_union(a, b)) == bits(a).union(bits(b));
impl vstd::std_specs::ops::BitOrAssignSpecImpl<&RoaringBitmap> for RoaringBitmap {
    open spec fn obeys_bitor_assign_spec() -> bool { true }
    open spec fn bitor_assign_req(&self, rhs: &RoaringBitmap) -> bool { true }
    open spec fn bitor_assign_spec(&self, rhs: &RoaringBitmap) -> &RoaringBitmap { &rb_union(*self, *rhs) }
}
impl core::ops::BitOrAssign<&RoaringBitmap> for RoaringBitmap {
    #[verifier::external_body]
    fn bitor_assign(&mut self, rhs: &RoaringBitmap)
    { unimplemented!() }
}
impl RoaringBitmap {
    #[verifier::external_body]
    pub fn new() -> (r: Self) ensures bits(r) == Set::<u32>::empty() { unimplemented!() }
    #[verifier::external_body]
    pub fn insert(&mut self, z: u32) -> (r: bool) ensures bits(*final(self)) == bits(*old(self)).insert(z) { unimplemented!() }
}
pub open spec fn width(g: TimeGranularity) -> int {
    match g { TimeGranularity::Hour => 3600, TimeGranularity::Day => 86_400, TimeGranularity::Week => 604_800, TimeGranularity::Month => 2_592_000, TimeGranularity::Year => 31_536_000 }
}
#[verifier::external_body]
pub fn naive_bucket_of(ts: u64, gran: &TimeGranularity) -> (r: u64)
    ensures r <= ts < r + width(*gran), r as int % width(*gran) == 0, r == floor_to(ts as int, width(*gran))
{ unimplemented!() }

pub open spec fn has(m: Map<u32, RoaringBitmap>, b: u32, z: u32) -> bool { m.contains_key(b) && bits(m[b]).contains(z) }
pub open spec fn floor_to(ts: int, w: int) -> int { (ts / w) * w }
pub open spec fn bid(start: u64) -> u32 { (start & 0xffff_ffffu64) as u32 }
pub open spec fn slot(k: int) -> u32 { bid(k as u64) }

pub proof fn lemma_slot_id(k: u64)
    requires k < 0x1_0000_0000u64
    ensures bid(k) == k as u32, bid(k) as u64 == k
{
    assert((k & 0xffff_ffffu64) == k) by (bit_vector) requires k < 0x1_0000_0000u64;
}
/// composition for one zone covering [min_ts, max_ts] (before the u32 slot wraps in 2106): a `>= q` / `> q` probe with q <= max_ts and a
/// `<= q` / `< q` probe with q >= min_ts find a day slot that lists the zone - the slot the contracts of zones_for_ge / zones_for_le read
pub proof fn lemma_range_probes_find_the_zone(day: Map<u32, RoaringBitmap>, z: u32, min_ts: int, max_ts: int, q: int)
    requires 0 <= min_ts <= max_ts < 0x1_0000_0000, 0 <= q < 0x1_0000_0000,
        forall|ts: int| min_ts <= ts <= max_ts ==> has(day, slot(#[trigger] floor_to(ts, 86_400)), z),
    ensures
        q <= max_ts ==> has(day, slot(floor_to(max_ts, 86_400)), z) && slot(floor_to(max_ts, 86_400)) >= slot(floor_to(q, 86_400)),
        q >= min_ts ==> has(day, slot(floor_to(min_ts, 86_400)), z) && slot(floor_to(min_ts, 86_400)) <= slot(floor_to(q, 86_400)),
{
    lemma_floor_props(max_ts, 86_400); lemma_floor_props(min_ts, 86_400); lemma_floor_props(q, 86_400);
    lemma_slot_id(floor_to(max_ts, 86_400) as u64); lemma_slot_id(floor_to(min_ts, 86_400) as u64); lemma_slot_id(floor_to(q, 86_400) as u64);
    if q <= max_ts { lemma_mono(q, max_ts, 86_400); }
    if q >= min_ts { lemma_mono(min_ts, q, 86_400); }
}
/// every instant of [lo, hi] floors to an aligned value between floor(lo) and floor(hi)
pub proof fn lemma_cover(lo: int, hi: int, w: int)
    requires 0 <= lo, w > 0
    ensures forall|ts: int| lo <= ts <= hi ==> floor_to(lo, w) <= #[trigger] floor_to(ts, w) <= floor_to(hi, w) && floor_to(ts, w) % w == 0
{
    assert forall|ts: int| lo <= ts <= hi implies floor_to(lo, w) <= #[trigger] floor_to(ts, w) <= floor_to(hi, w) && floor_to(ts, w) % w == 0 by {
        lemma_floor_props(ts, w); lemma_mono(lo, ts, w); lemma_mono(ts, hi, w);
    }
}
pub proof fn lemma_floor_props(t: int, w: int)
    requires t >= 0, w > 0
    ensures floor_to(t, w) <= t < floor_to(t, w) + w, floor_to(t, w) % w == 0, floor_to(t, w) >= 0
{
    vstd::arithmetic::div_mod::lemma_fundamental_div_mod(t, w);
    vstd::arithmetic::div_mod::lemma_mod_bound(t, w);
    vstd::arithmetic::div_mod::lemma_mod_multiples_basic(t / w, w);
    vstd::arithmetic::div_mod::lemma_div_pos_is_pos(t, w);
    assert((t / w) * w == w * (t / w)) by (nonlinear_arith);
    assert((t / w) * w >= 0) by (nonlinear_arith) requires t / w >= 0, w > 0;
}
/// the aligned value r with r <= t < r + w is the floor
pub proof fn lemma_unique(t: int, r: int, w: int)
    requires t >= 0, w > 0, r <= t < r + w, r % w == 0
    ensures r == floor_to(t, w)
{
    lemma_floor_props(t, w);
    let f = floor_to(t, w);
    // two multiples of w less than w apart are equal
    if r != f { lemma_between(if r > f { r } else { f }, if r > f { f } else { r }, w); }
}
pub proof fn lemma_aligned_floor(t: int, w: int)
    requires t >= 0, w > 0, t % w == 0
    ensures floor_to(t, w) == t
{
    lemma_unique(t, t, w);
}
/// a multiple of w that is >= another multiple b and < b + w equals b
pub proof fn lemma_between(k: int, b: int, w: int)
    requires w > 0, k % w == 0, b % w == 0, b <= k < b + w
    ensures k == b
{
    vstd::arithmetic::div_mod::lemma_fundamental_div_mod(k, w);
    vstd::arithmetic::div_mod::lemma_fundamental_div_mod(b, w);
    let qk = k / w; let qb = b / w;
    assert(k == w * qk && b == w * qb);
    assert(qk == qb) by (nonlinear_arith) requires w > 0, w * qb <= w * qk, w * qk < w * qb + w;
}
pub proof fn lemma_mono(a: int, b: int, w: int)
    requires 0 <= a <= b, w > 0
    ensures floor_to(a, w) <= floor_to(b, w)
{
    assert(a / w <= b / w) by (nonlinear_arith) requires 0 <= a <= b, w > 0;
    assert((a / w) * w <= (b / w) * w) by (nonlinear_arith) requires a / w <= b / w, w > 0;
}

} // verus!
fn main() {}
