// GENERATED on every run by tools/verus_run.py from /repo and contracts/verus/c08_temporal_index.spec
use vstd::prelude::*;
verus! {


pub enum CompareOp {
    Eq,
    Neq,
    Gt,
    Gte,
    Lt,
    Lte,
    In,
}
pub struct ZoneTemporalIndex {
    pub min_ts: i64,
    pub max_ts: i64,
    pub stride: i64,
    pub keys: Vec<u64>,
}

impl ZoneTemporalIndex {
    pub fn contains_ts(&self, ts: i64) -> (r: bool)
     requires wf(*self),
     ensures holds(*self, ts) ==> r, // OBL:C08.temporal_index.contains_ts.sound
{
         proof { lemma_vals_in_range(*self); }
        if ts < self.min_ts || ts > self.max_ts {
            return false;
        }
        let off = ts - self.min_ts;
        if self.stride > 1 && (off % self.stride) != 0 {
            return false;
        }
        let key = (off / self.stride).max(0) as u64;
        // Temporary binary search on keys until EF is wired
         proof {
             assert forall|r0: Result<usize, usize>| bs_post(self.keys@, key, r0) implies
                 ((r0 is Ok) <==> (exists|i: int| 0 <= i < self.keys@.len() && self.keys@[i] == key)) by {
                 axiom_binary_search_u64(self.keys@, key, r0);
             }
             if holds(*self, ts) {
                 let i = choose|i: int| 0 <= i < self.keys@.len() && #[trigger] val(*self, i) == ts as int;
                 assert(self.keys@[i] == key);
             }
         }
        self.keys.binary_search(&key).is_ok()
    }

    pub fn may_match(&self, op: CompareOp, v: i64) -> (r: bool)
     requires wf(*self), !(op is In),
     ensures (op is Eq && holds(*self, v)) ==> r,                                                          // OBL:C08.temporal_index.may_match.eq_sound
             (op is Neq && exists|i: int| 0 <= i < self.keys@.len() && #[trigger] val(*self, i) != v) ==> r,          // OBL:C08.temporal_index.may_match.neq_sound
             (op is Gt && exists|i: int| 0 <= i < self.keys@.len() && #[trigger] val(*self, i) > v) ==> r,            // OBL:C08.temporal_index.may_match.gt_sound
             (op is Gte && exists|i: int| 0 <= i < self.keys@.len() && #[trigger] val(*self, i) >= v) ==> r,          // OBL:C08.temporal_index.may_match.gte_sound
             (op is Lt && exists|i: int| 0 <= i < self.keys@.len() && #[trigger] val(*self, i) < v) ==> r,            // OBL:C08.temporal_index.may_match.lt_sound
             (op is Lte && exists|i: int| 0 <= i < self.keys@.len() && #[trigger] val(*self, i) <= v) ==> r,          // OBL:C08.temporal_index.may_match.lte_sound
{
         proof { lemma_vals_in_range(*self); }
        match op {
            CompareOp::Eq => self.contains_ts(v),
            CompareOp::Neq => {
                // If there exists any value, then Neq(v) may match unless the only value equals v.
                if self.min_ts > self.max_ts {
                    return false;
                }
                if self.min_ts == self.max_ts {
                    return self.min_ts != v;
                }
                true
            }
            CompareOp::Gt => v < self.max_ts,
            CompareOp::Gte => v <= self.max_ts,
            CompareOp::Lt => v > self.min_ts,
            CompareOp::Lte => v >= self.min_ts,
            CompareOp::In => {
                // IN operations require multiple values and should be handled at a higher level
                // (e.g., in filter plan or condition evaluator) where the full list is available.
                // This method only accepts a single value, so IN should not reach here.
                unreachable!("IN operations should not use single-value may_match")
            }
        }
    }

    pub fn may_match_range(&self, min: i64, max: i64) -> (r: bool)
     requires wf(*self),
     ensures (exists|i: int| 0 <= i < self.keys@.len() && min <= #[trigger] val(*self, i) <= max) ==> r, // OBL:C08.temporal_index.may_match_range.sound
{
         proof { lemma_vals_in_range(*self); }
        if max < min {
            return false;
        }
        // Overlap of [min,max] with [self.min_ts, self.max_ts]
        !(max < self.min_ts || min > self.max_ts)
    }

}

// ---- spec functions and lemmas from the contract file ----
// ---- trusted: the std contract of <[T]>::binary_search on a strictly sorted slice ----
pub uninterp spec fn bs_post<T>(s: Seq<T>, x: T, r: Result<usize, usize>) -> bool;

pub assume_specification<T: core::cmp::Ord>[ <[T]>::binary_search ](s: &[T], x: &T) -> (r: Result<usize, usize>)
    ensures bs_post(s@, *x, r);

pub open spec fn sorted_u64(s: Seq<u64>) -> bool {
    forall|i: int, j: int| 0 <= i < j < s.len() ==> s[i] < s[j]
}

#[verifier::external_body]
pub proof fn axiom_binary_search_u64(s: Seq<u64>, x: u64, r: Result<usize, usize>)
    requires bs_post(s, x, r), sorted_u64(s)
    ensures (r is Ok) <==> (exists|i: int| 0 <= i < s.len() && s[i] == x),
{}

// ---- abstract view: the i-th stored instant ----
pub open spec fn val(z: ZoneTemporalIndex, i: int) -> int {
    z.min_ts as int + (z.keys@[i] as int) * (z.stride as int)
}

pub open spec fn holds(z: ZoneTemporalIndex, t: i64) -> bool {
    exists|i: int| 0 <= i < z.keys@.len() && #[trigger] val(z, i) == t as int
}

/// representation invariant established by from_timestamps (Kani unit c08_temporal_builder) for the
/// stride every call site passes (1); an empty index (no rows) is well formed with any extremes
pub open spec fn wf(z: ZoneTemporalIndex) -> bool {
    &&& z.stride == 1
    &&& z.max_ts as int - z.min_ts as int <= i64::MAX   // the span of one zone fits i64 (from_timestamps computes t - min)
    &&& sorted_u64(z.keys@)
    &&& z.keys@.len() > 0 ==> {
        &&& z.keys@[0] == 0
        &&& z.min_ts as int + z.keys@[z.keys@.len() - 1] as int == z.max_ts as int
    }
}

pub proof fn lemma_vals_in_range(z: ZoneTemporalIndex)
    requires wf(z)
    ensures forall|i: int| 0 <= i < z.keys@.len() ==> z.min_ts <= #[trigger] val(z, i) <= z.max_ts,
            z.keys@.len() > 0 ==> val(z, 0) == z.min_ts && val(z, z.keys@.len() - 1) == z.max_ts,
{
    assert forall|i: int| 0 <= i < z.keys@.len() implies z.min_ts <= #[trigger] val(z, i) <= z.max_ts by {
        if i < z.keys@.len() - 1 {
            assert(z.keys@[i] < z.keys@[z.keys@.len() - 1]);
        }
    }
}

} // verus!
fn main() {}
