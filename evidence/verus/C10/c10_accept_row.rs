// GENERATED on every run by tools/verus_run.py from /repo and contracts/verus/c10_accept_row.spec
use vstd::prelude::*;
verus! {


pub struct QueryResponseWriter {
    pub seen_ids: HashSet<u64>,
    pub limit: Option<usize>,
    pub offset: Option<usize>,
    pub emitted: usize,
    pub skipped: usize,
    pub limit_reached: bool,
}

impl QueryResponseWriter {
    pub fn try_accept_row(&mut self, event_id: Option<u64>) -> (r: bool)
     requires old(self).emitted < usize::MAX, old(self).skipped < usize::MAX,
     ensures
         final(self).offset == old(self).offset, final(self).limit == old(self).limit,
         final(self).seen_ids@ == (match event_id { Some(id) => old(self).seen_ids@.insert(id), None => old(self).seen_ids@ }), // OBL:C10.accept_row.try_accept_row.records_id
         r == accept_spec(old(self).view_state(), event_id),                                                                     // OBL:C10.accept_row.try_accept_row.accept_iff_fresh_past_offset_within_limit
         final(self).skipped == next_skipped(old(self).view_state(), event_id),                                                  // OBL:C10.accept_row.try_accept_row.skipped_counts_fresh_rows_before_offset
         final(self).emitted == (if r { old(self).emitted + 1 } else { old(self).emitted as int }),                              // OBL:C10.accept_row.try_accept_row.emitted_counts_accepted_rows
{
        if let Some(id) = event_id {
            if !self.seen_ids.insert(id) {
                return false;
            }
        }

        if let Some(offset) = self.offset {
            if self.skipped < offset {
                self.skipped += 1;
                return false;
            }
        }

        if let Some(limit) = self.limit {
            if self.emitted >= limit {
                self.limit_reached = true;
                return false;
            }
        }

        self.emitted += 1;
        true
    }

}

// ---- spec functions and lemmas from the contract file ----
use std::collections::HashSet;

pub struct St { pub seen: Set<u64>, pub offset: Option<usize>, pub limit: Option<usize>, pub skipped: usize, pub emitted: usize }

impl QueryResponseWriter {
    pub open spec fn view_state(&self) -> St {
        St { seen: self.seen_ids@, offset: self.offset, limit: self.limit, skipped: self.skipped, emitted: self.emitted }
    }
}

pub open spec fn fresh(s: St, id: Option<u64>) -> bool {
    match id { Some(i) => !s.seen.contains(i), None => true }
}

/// from the statement: a row is returned iff it is a new event, the offset has been consumed, and the limit is not exhausted
pub open spec fn accept_spec(s: St, id: Option<u64>) -> bool {
    &&& fresh(s, id)
    &&& (match s.offset { Some(o) => s.skipped >= o, None => true })
    &&& (match s.limit { Some(l) => s.emitted < l, None => true })
}

pub open spec fn next_skipped(s: St, id: Option<u64>) -> int {
    if fresh(s, id) && (match s.offset { Some(o) => s.skipped < o, None => false }) { s.skipped + 1 } else { s.skipped as int }
}

// ---- composition over a whole row sequence ----

/// number of distinct ids among ids[0..k] (= position of the next fresh row in the deduplicated sequence)
pub open spec fn distinct_before(ids: Seq<u64>, k: int) -> int
    decreases k
{
    if k <= 0 { 0 } else { distinct_before(ids, k - 1) + (if first_occurrence(ids, k - 1) { 1int } else { 0int }) }
}

pub open spec fn first_occurrence(ids: Seq<u64>, k: int) -> bool {
    forall|j: int| 0 <= j < k ==> ids[j] != ids[k]
}

pub open spec fn min(a: int, b: int) -> int { if a < b { a } else { b } }
pub open spec fn max0(a: int) -> int { if a < 0 { 0 } else { a } }

/// the slice of the statement: position p of the deduplicated sequence is returned iff offset <= p < offset + limit
pub open spec fn in_slice(p: int, offset: int, limit: int) -> bool { offset <= p < offset + limit }

pub fn run(w: &mut QueryResponseWriter, ids: &Vec<u64>) -> (out: Vec<bool>)
    requires
        old(w).seen_ids@ == Set::<u64>::empty(), old(w).skipped == 0, old(w).emitted == 0,
        old(w).offset is Some, old(w).limit is Some,
        ids.len() < usize::MAX,
        vstd::std_specs::hash::obeys_key_model::<u64>(),
    ensures
        out.len() == ids.len(),
        forall|k: int| 0 <= k < ids.len() ==> #[trigger] out[k] == (first_occurrence(ids@, k)
            && in_slice(distinct_before(ids@, k), old(w).offset->Some_0 as int, old(w).limit->Some_0 as int)),
{
    let mut out: Vec<bool> = Vec::new();
    let mut k: usize = 0;
    let ghost off: usize = w.offset->Some_0;
    let ghost lim: usize = w.limit->Some_0;
    while k < ids.len()
        invariant
            0 <= k <= ids.len(), ids.len() < usize::MAX, out.len() == k,
            w.offset == Some(off), w.limit == Some(lim),
            forall|x: u64| w.seen_ids@.contains(x) <==> (exists|j: int| 0 <= j < k && ids@[j] == x),
            w.skipped == min(off as int, distinct_before(ids@, k as int)),
            w.emitted == min(lim as int, max0(distinct_before(ids@, k as int) - off)),
            0 <= distinct_before(ids@, k as int) <= k,
            forall|i: int| 0 <= i < k ==> #[trigger] out[i] == (first_occurrence(ids@, i) && in_slice(distinct_before(ids@, i), off as int, lim as int)),
        decreases ids.len() - k
    {
        let id = ids[k];
        proof {
            // fresh <=> first occurrence
            assert(!w.seen_ids@.contains(id) <==> first_occurrence(ids@, k as int));
        }
        let r = w.try_accept_row(Some(id));
        out.push(r);
        proof {
            assert(distinct_before(ids@, k as int + 1) == distinct_before(ids@, k as int) + (if first_occurrence(ids@, k as int) { 1int } else { 0int }));
            assert forall|x: u64| w.seen_ids@.contains(x) <==> (exists|j: int| 0 <= j < k + 1 && ids@[j] == x) by {
                if x == id { assert(ids@[k as int] == x); }
            }
        }
        k += 1;
    }
    out
}

} // verus!
fn main() {}
