// GENERATED on every run by tools/verus_run.py from /repo and contracts/verus/c10_rlte_bound.spec
use vstd::prelude::*;
verus! {


pub enum NumericBoundKind {
    Lt,
    Lte,
    Gt,
    Gte,
}
pub struct WhereBound {
    pub kind: NumericBoundKind,
    pub value: u64,
}

impl WhereBound {
    pub fn keep_zone(&self, min: u64, max: u64) -> (r: bool)
     ensures (exists|x: u64| min <= x <= max && #[trigger] sat(self.kind, x, self.value)) ==> r, // OBL:C10.rlte_bound.keep_zone.sound
{
        match self.kind {
            NumericBoundKind::Lt => min < self.value,
            NumericBoundKind::Lte => min <= self.value,
            NumericBoundKind::Gt => max > self.value,
            NumericBoundKind::Gte => max >= self.value,
        }
    }

}

// ---- spec functions and lemmas from the contract file ----
/// the WHERE bound of the statement: a row value x passes `field op value`
pub open spec fn sat(kind: NumericBoundKind, x: u64, v: u64) -> bool {
    match kind {
        NumericBoundKind::Lt => x < v,
        NumericBoundKind::Lte => x <= v,
        NumericBoundKind::Gt => x > v,
        NumericBoundKind::Gte => x >= v,
    }
}

} // verus!
fn main() {}
