// GENERATED on every run by tools/verus_run.py from /repo and contracts/verus/c12_route_range.spec
use vstd::prelude::*;
verus! {


pub struct ShardManager {
    pub shards: Vec<Shard>,
}

impl ShardManager {
    pub fn get_shard(&self, context_id: &str) -> (r: &Shard)
     requires self.shards@.len() > 0,
     ensures exists|i: int| 0 <= i < self.shards@.len() && *r == #[trigger] self.shards@[i] && i == route_index(context_id, self.shards@.len() as int), // OBL:C12.route_range.get_shard.index_is_hash_mod_count
{
        let mut hasher = DefaultHasher::new();
        context_id.hash(&mut hasher);
        let shard_id = (hasher.finish() as usize) % self.shards.len();
        &self.shards[shard_id]
    }

}

// ---- spec functions and lemmas from the contract file ----
// ---- the hasher and the shard handle are external (trusted declarations): the hash is an uninterpreted function of
// ---- the id alone (new() takes no input and `hash` feeds only the id), which is the determinism the statement needs
#[verifier::external_body]
pub struct Shard { _p: core::marker::PhantomData<()> }
#[verifier::external_body]
pub struct DefaultHasher { _p: core::marker::PhantomData<()> }

pub uninterp spec fn fed(h: DefaultHasher) -> Option<Seq<char>>;   // what has been written into the hasher
pub uninterp spec fn hash_of(s: Seq<char>) -> u64;                 // SipHash-1-3 with std's fixed keys (Kani unit c12_routing executes it)

pub open spec fn route_index(id: &str, n: int) -> int { (hash_of(id@) as usize as int) % n }

impl DefaultHasher {
    #[verifier::external_body]
    pub fn new() -> (h: DefaultHasher) ensures fed(h) is None { unimplemented!() }
    #[verifier::external_body]
    pub fn finish(&self) -> (r: u64) ensures fed(*self) is Some ==> r == hash_of(fed(*self)->Some_0) { unimplemented!() }
}
pub trait Hash { fn hash(&self, state: &mut DefaultHasher); }
impl Hash for str {
    #[verifier::external_body]
    fn hash(&self, state: &mut DefaultHasher)
        ensures fed(*old(state)) is None ==> fed(*final(state)) == Some(self@)
    { unimplemented!() }
}

} // verus!
fn main() {}
