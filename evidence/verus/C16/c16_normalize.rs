// GENERATED on every run by tools/verus_run.py from /repo and contracts/verus/c16_normalize.spec
use vstd::prelude::*;
verus! {


pub enum FieldType {
    String,
    U64,
    I64,
    F64,
    Bool,
    Timestamp,
    Date,
    Optional(Box<FieldType>),
    Enum(EnumType),
}
pub enum TimeKind {
    DateTime,
    Date,
}
pub struct MiniSchema {
    pub fields: HashMap<String, FieldType>,
}
pub struct PayloadTimeNormalizer<'a> {
    pub schema: &'a MiniSchema,
}

impl<'a> PayloadTimeNormalizer<'a> {
    pub fn normalize(&self, payload: &mut Value) -> (r: Result<(), String>)
     requires keys_unique(entries(&self.schema.fields))
     ensures
         r is Ok ==> as_obj(*old(payload)) is Some && as_obj(*final(payload)) is Some
             && done(entries(&self.schema.fields), entries(&self.schema.fields).len() as int, oview(as_obj(*old(payload))->Some_0), oview(as_obj(*final(payload))->Some_0)), // OBL:C16.normalize.every_time_field_gets_its_kind_and_nothing_else_changes
         as_obj(*old(payload)) is Some && all_readable(entries(&self.schema.fields), oview(as_obj(*old(payload))->Some_0)) ==> r is Ok, // OBL:C16.normalize.readable_payload_is_accepted
{
        let obj = as_object_mut_or_err(payload)?;
         let ghost o0 = oview(*obj);
         let ghost es = entries(&self.schema.fields);

        for (field, field_type) in it: &self.schema.fields 
             invariant done(es, it.index@, o0, oview(*obj)), it.history@ =~= es.take(it.index@), es == entries(&self.schema.fields), keys_unique(es),
                 as_obj(*old(payload)) is Some, o0 == oview(as_obj(*old(payload))->Some_0),
{
             let ghost n = it.index@;
             let ghost o1 = oview(*obj);
             assert((field, field_type) == es[n]);
             assert(o1.contains_key(field@) ==> o1[field@] == o0[field@]) by {
                 assert(forall|i: int| 0 <= i < n ==> (#[trigger] es[i]).0@ != es[n].0@);
             }

            match field_type {
                FieldType::Timestamp => {
                    if let Some(v) = obj.get_mut(field) {
                        TimeParser::normalize_json_value(v, TimeKind::DateTime)?;
                    }
                }
                FieldType::Date => {
                    if let Some(v) = obj.get_mut(field) {
                        TimeParser::normalize_json_value(v, TimeKind::Date)?;
                    }
                }
                FieldType::Optional(inner) => {
                    if matches!(**inner, FieldType::Timestamp | FieldType::Date) {
                        if let Some(v) = obj.get_mut(field) {
                            let kind = if matches!(**inner, FieldType::Timestamp) {
                                TimeKind::DateTime
                            } else {
                                TimeKind::Date
                            };
                            if !v.is_null() {
                                TimeParser::normalize_json_value(v, kind)?;
                            }
                        }
                    }
                }
                _ => {}
            }
        
             proof { lemma_step(es, n, o0, o1, oview(*obj)); }
}
        Ok(())
    }

}

// ---- spec functions and lemmas from the contract file ----
// ---- TRUSTED declarations: the schema map and its iteration (`entries`, keys pairwise different - a HashMap), the JSON
// ---- object seen through `oview` with `get_mut` handing out a borrow of one value (prophecy: the object when the borrow
// ---- ends), `Value::is_null`, and `TimeParser::normalize_json_value` with an uninterpreted result `norm(v, kind)`
// ---- (None = the value cannot be read as a time; its own contract is the Kani unit c16_json_value). E6: the
// ---- `as_object_mut().ok_or_else(|| ..)` expression is replaced by `as_object_mut_or_err`.
#[verifier::external_body]
pub struct EnumType { _p: core::marker::PhantomData<()> }
pub struct TimeParser;
#[verifier::external_body]
#[verifier::reject_recursive_types(K)]
#[verifier::reject_recursive_types(V)]
pub struct HashMap<K, V> { _p: core::marker::PhantomData<(K, V)> }
#[verifier::external_body]
#[verifier::reject_recursive_types(K)]
#[verifier::reject_recursive_types(V)]
pub struct Iter<'a, K, V> { _p: core::marker::PhantomData<&'a (K, V)> }
#[verifier::external_body]
pub struct Value { _p: core::marker::PhantomData<()> }
#[verifier::external_body]
pub struct JsonMap { _p: core::marker::PhantomData<()> }

pub uninterp spec fn entries<K, V>(m: &HashMap<K, V>) -> Seq<(&K, &V)>;
pub uninterp spec fn oview(o: JsonMap) -> Map<Seq<char>, Value>;
pub uninterp spec fn norm(v: Value, kind: TimeKind) -> Option<Value>;   // None: the value cannot be read as a time
pub uninterp spec fn is_null(v: Value) -> bool;
pub uninterp spec fn as_obj(v: Value) -> Option<JsonMap>;

impl<'a, K, V> Iterator for Iter<'a, K, V> {
    type Item = (&'a K, &'a V);
    #[verifier::external_body]
    fn next(&mut self) -> Option<(&'a K, &'a V)> { unimplemented!() }
}
impl<'a, K, V> vstd::std_specs::iter::IteratorSpecImpl for Iter<'a, K, V> {
    open spec fn obeys_prophetic_iter_laws(&self) -> bool { true }
    #[verifier::prophetic]
    uninterp spec fn remaining(&self) -> Seq<Self::Item>;
    #[verifier::prophetic]
    uninterp spec fn will_return_none(&self) -> bool;
    uninterp spec fn decrease(&self) -> Option<nat>;
    uninterp spec fn peek(&self, index: int) -> Option<Self::Item>;
}
impl<'a, K, V> IntoIterator for &'a HashMap<K, V> {
    type Item = (&'a K, &'a V);
    type IntoIter = Iter<'a, K, V>;
    #[verifier::external_body]
    fn into_iter(self) -> (r: Iter<'a, K, V>)
        ensures vstd::std_specs::iter::IteratorSpec::decrease(&r) is Some, vstd::std_specs::iter::IteratorSpec::remaining(&r) == entries(self)
    { unimplemented!() }
}
impl JsonMap {
    #[verifier::external_body]
    pub fn get_mut(&mut self, k: &String) -> (r: Option<&mut Value>)
        ensures
            r is Some == oview(*old(self)).contains_key(k@),
            r is Some ==> *(r->Some_0) == oview(*old(self))[k@] && oview(*final(self)) == oview(*old(self)).insert(k@, *final(r->Some_0)),
            r is None ==> oview(*final(self)) == oview(*old(self)),
    { unimplemented!() }
}
impl Value {
    #[verifier::external_body]
    pub fn is_null(&self) -> (r: bool) ensures r == is_null(*self) { unimplemented!() }
}
impl TimeParser {
    #[verifier::external_body]
    pub fn normalize_json_value(v: &mut Value, kind: TimeKind) -> (r: Result<(), String>)
        ensures r is Ok == norm(*old(v), kind) is Some, r is Ok ==> *final(v) == norm(*old(v), kind)->Some_0,
    { unimplemented!() }
}
#[verifier::external_body]
pub fn as_object_mut_or_err(payload: &mut Value) -> (r: Result<&mut JsonMap, String>)
    ensures r is Ok == as_obj(*old(payload)) is Some,
            r is Ok ==> *(r->Ok_0) == as_obj(*old(payload))->Some_0 && as_obj(*final(payload)) == Some(*final(r->Ok_0)),
            r is Err ==> *final(payload) == *old(payload),
{ unimplemented!() }

/// the time kind a declared type asks for, if any (the statement: Timestamp and Date fields, also under Optional)
pub open spec fn kind_of(ft: FieldType) -> Option<TimeKind> {
    match ft {
        FieldType::Timestamp => Some(TimeKind::DateTime),
        FieldType::Date => Some(TimeKind::Date),
        FieldType::Optional(inner) => match *inner { FieldType::Timestamp => Some(TimeKind::DateTime), FieldType::Date => Some(TimeKind::Date), _ => None },
        _ => None,
    }
}
/// what one schema entry does to one stored value
pub open spec fn wanted(ft: FieldType, v: Value) -> Option<Value> {
    match kind_of(ft) {
        None => Some(v),
        Some(k) => if ft is Optional && is_null(v) { Some(v) } else { norm(v, k) },
    }
}
pub open spec fn all_readable(es: Seq<(&String, &FieldType)>, o0: Map<Seq<char>, Value>) -> bool {
    forall|i: int| 0 <= i < es.len() && o0.contains_key((#[trigger] es[i]).0@) ==> wanted(*es[i].1, o0[es[i].0@]) is Some
}
pub open spec fn keys_unique(es: Seq<(&String, &FieldType)>) -> bool {
    forall|i: int, j: int| 0 <= i < es.len() && 0 <= j < es.len() && (#[trigger] es[i]).0@ == (#[trigger] es[j]).0@ ==> i == j
}
/// after the first n entries: keys of the object unchanged; every key named by one of the first n entries holds the wanted value; all others untouched
pub open spec fn done(es: Seq<(&String, &FieldType)>, n: int, o0: Map<Seq<char>, Value>, o: Map<Seq<char>, Value>) -> bool {
    &&& o.dom() == o0.dom()
    &&& forall|i: int| 0 <= i < n && o0.contains_key((#[trigger] es[i]).0@) ==> wanted(*es[i].1, o0[es[i].0@]) == Some(o[es[i].0@])
    &&& forall|k: Seq<char>| o0.contains_key(k) && (forall|i: int| 0 <= i < n ==> (#[trigger] es[i]).0@ != k) ==> #[trigger] o[k] == o0[k]
}

pub proof fn lemma_step(es: Seq<(&String, &FieldType)>, n: int, o0: Map<Seq<char>, Value>, o1: Map<Seq<char>, Value>, o2: Map<Seq<char>, Value>)
    requires 0 <= n < es.len(), keys_unique(es), done(es, n, o0, o1),
        o1.contains_key(es[n].0@) ==> wanted(*es[n].1, o1[es[n].0@]) is Some && o2 =~= o1.insert(es[n].0@, wanted(*es[n].1, o1[es[n].0@])->Some_0),
        !o1.contains_key(es[n].0@) ==> o2 =~= o1,
    ensures done(es, n + 1, o0, o2)
{
    let k = es[n].0@;
    assert(o2.dom() =~= o0.dom());
    if o1.contains_key(k) {
        // k is not named by an earlier entry, so o1[k] is still the original value
        assert(forall|i: int| 0 <= i < n ==> (#[trigger] es[i]).0@ != k);
        assert(o1[k] == o0[k]);
    }
    assert forall|i: int| 0 <= i < n + 1 && o0.contains_key((#[trigger] es[i]).0@) implies wanted(*es[i].1, o0[es[i].0@]) == Some(o2[es[i].0@]) by {
        if i < n { assert(es[i].0@ != k); }
    }
    assert forall|kk: Seq<char>| o0.contains_key(kk) && (forall|i: int| 0 <= i < n + 1 ==> (#[trigger] es[i]).0@ != kk) implies #[trigger] o2[kk] == o0[kk] by {
        assert(es[n].0@ != kk);
        assert(forall|i: int| 0 <= i < n ==> (#[trigger] es[i]).0@ != kk);
    }
}

} // verus!
fn main() {}
