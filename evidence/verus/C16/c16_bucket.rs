// GENERATED on every run by tools/verus_run.py from /repo and contracts/verus/c16_bucket.spec
use vstd::prelude::*;
verus! {


pub enum TimeGranularity {
    Hour,
    Day,
    Week,
    Month,
    Year,
}

pub fn naive_bucket_of(ts: u64, gran: &TimeGranularity) -> (r: u64)
     ensures r <= ts < r + width(*gran),            // OBL:C16.bucket.naive_bucket_of.contains_ts
             r as int % width(*gran) == 0,          // OBL:C16.bucket.naive_bucket_of.aligned
{
     proof {
         lemma_floor(ts as int, 3600); lemma_floor(ts as int, 86_400); lemma_floor(ts as int, 604_800);
         lemma_floor(ts as int, 2_592_000); lemma_floor(ts as int, 31_536_000);
     }
    match gran {
        TimeGranularity::Hour => (ts / 3600) * 3600,
        TimeGranularity::Day => (ts / 86_400) * 86_400,
        TimeGranularity::Week => (ts / 604_800) * 604_800,
        TimeGranularity::Month => (ts / 2_592_000) * 2_592_000, // naive 30-day month bucket
        TimeGranularity::Year => (ts / 31_536_000) * 31_536_000, // naive 365-day year bucket
    }
}

// ---- spec functions and lemmas from the contract file ----
/// bucket widths of the statement's fallback (UTC, fixed-length) calendar
pub open spec fn width(g: TimeGranularity) -> int {
    match g {
        TimeGranularity::Hour => 3600,
        TimeGranularity::Day => 86_400,
        TimeGranularity::Week => 604_800,
        TimeGranularity::Month => 2_592_000,
        TimeGranularity::Year => 31_536_000,
    }
}

pub proof fn lemma_bucket_monotone(a: int, b: int, w: int)
    requires 0 <= a <= b, w > 0
    ensures (a / w) * w <= (b / w) * w
{
    assert(a / w <= b / w) by (nonlinear_arith) requires 0 <= a <= b, w > 0;
    assert((a / w) * w <= (b / w) * w) by (nonlinear_arith) requires a / w <= b / w, w > 0;
}

pub proof fn lemma_floor(t: int, w: int)
    requires t >= 0, w > 0
    ensures (t / w) * w <= t < (t / w) * w + w, ((t / w) * w) % w == 0, t / w >= 0
{
    vstd::arithmetic::div_mod::lemma_fundamental_div_mod(t, w);
    vstd::arithmetic::div_mod::lemma_mod_bound(t, w);
    vstd::arithmetic::div_mod::lemma_mod_multiples_basic(t / w, w);
    vstd::arithmetic::div_mod::lemma_div_pos_is_pos(t, w);
    assert((t / w) * w == w * (t / w)) by (nonlinear_arith);
}

} // verus!
fn main() {}
