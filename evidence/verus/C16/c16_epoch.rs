// GENERATED on every run by tools/verus_run.py from /repo and contracts/verus/c16_epoch.spec
use vstd::prelude::*;
verus! {


pub struct TimeParser;

impl TimeParser {
    pub fn normalize_integer_epoch(n: i128) -> (r: Option<i64>)
     ensures r == norm_spec(n as int), // OBL:C16.epoch.normalize_integer_epoch.magnitude_windows
{
        let abs = n.unsigned_abs();
        let digits = num_digits_u128(abs);
         proof { lemma_digits_windows(abs as nat); }
        let secs = match digits {
            0..=11 => n,                  // seconds (and small negatives)
            12..=14 => n / 1_000,         // ms -> s
            15..=16 => n / 1_000_000,     // µs -> s
            17..=19 => n / 1_000_000_000, // ns -> s
            _ => return None,
        };
        i64::try_from(secs).ok()
    }

}

pub fn num_digits_u128(mut x: u128) -> (r: u32)
     ensures r == (if x == 0 { 1 } else { digits0(x as nat) }), // OBL:C16.epoch.num_digits_u128.counts_decimal_digits
             1 <= r <= 39,
{
     let ghost old_x = x;
     proof { lemma_digits0_bound(x as nat); }
    if x == 0 {
        return 1;
    }
    let mut c = 0;
    while x > 0 
         invariant digits0(old_x as nat) == c + digits0(x as nat), c <= 39 - digits0(x as nat), x <= old_x,
         decreases x,
{
        x /= 10;
        c += 1;
    }
    c
}

// ---- spec functions and lemmas from the contract file ----
// ---- assumed contracts on std integer helpers (trusted, listed) ----
pub assume_specification[ i128::unsigned_abs ](x: i128) -> (r: u128)
    ensures r as int == (if x >= 0 { x as int } else { -(x as int) });

pub open spec fn digits0(x: nat) -> nat
    decreases x
{
    if x == 0 { 0 } else { 1 + digits0(x / 10) }
}

pub open spec fn pow10(k: nat) -> nat
    decreases k
{
    if k == 0 { 1 } else { 10 * pow10((k - 1) as nat) }
}

pub proof fn lemma_digits0_iff(x: nat, k: nat)
    ensures digits0(x) <= k <==> x < pow10(k)
    decreases k
{
    reveal_with_fuel(digits0, 2);
    reveal_with_fuel(pow10, 2);
    if k == 0 {
    } else if x == 0 {
        lemma_pow10_pos(k);
    } else {
        lemma_digits0_iff(x / 10, (k - 1) as nat);
        // x < 10 * p  <==>  x / 10 < p
        assert(x < 10 * pow10((k - 1) as nat) <==> x / 10 < pow10((k - 1) as nat));
    }
}

pub proof fn lemma_pow10_pos(k: nat)
    ensures pow10(k) >= 1
    decreases k
{
    if k > 0 { lemma_pow10_pos((k - 1) as nat); }
}

pub proof fn lemma_digits0_bound(x: nat)
    requires x <= u128::MAX
    ensures digits0(x) <= 39
{
    lemma_pow10_values();
    lemma_digits0_iff(x, 39);
}

pub proof fn lemma_pow10_values()
    ensures pow10(11) == 100_000_000_000, pow10(14) == 100_000_000_000_000, pow10(16) == 10_000_000_000_000_000,
            pow10(19) == 10_000_000_000_000_000_000, pow10(39) == 1_000_000_000_000_000_000_000_000_000_000_000_000_000,
{
    reveal_with_fuel(pow10, 40);
}

pub proof fn lemma_digits_windows(a: nat)
    ensures digits0(a) <= 11 <==> a < 100_000_000_000,
            digits0(a) <= 14 <==> a < 100_000_000_000_000,
            digits0(a) <= 16 <==> a < 10_000_000_000_000_000,
            digits0(a) <= 19 <==> a < 10_000_000_000_000_000_000,
{
    lemma_pow10_values();
    lemma_digits0_iff(a, 11);
    lemma_digits0_iff(a, 14);
    lemma_digits0_iff(a, 16);
    lemma_digits0_iff(a, 19);
}

pub open spec fn abs_int(n: int) -> int { if n >= 0 { n } else { -n } }

/// truncating division as in Rust (`/` on i128 rounds toward zero)
pub open spec fn tdiv(n: int, d: int) -> int { if n >= 0 { n / d } else { -((-n) / d) } }

/// the magnitude windows of the statement ("epoch numbers in seconds, milliseconds, microseconds or nanoseconds")
pub open spec fn norm_spec(n: int) -> Option<i64> {
    let a = abs_int(n);
    let secs = if a < 100_000_000_000 { n }
        else if a < 100_000_000_000_000 { tdiv(n, 1_000) }
        else if a < 10_000_000_000_000_000 { tdiv(n, 1_000_000) }
        else { tdiv(n, 1_000_000_000) };
    if a >= 10_000_000_000_000_000_000 { None }
    else if i64::MIN <= secs <= i64::MAX { Some(secs as i64) } else { None }
}

pub proof fn lemma_seconds_identity(n: int)
    requires -100_000_000_000 < n < 100_000_000_000
    ensures norm_spec(n) == Some(n as i64)
{
}

pub proof fn lemma_all_spellings_one_instant(s: int, r_ms: int, r_us: int, r_ns: int)
    requires 100_000_000 <= s < 10_000_000_000,
             0 <= r_ms < 1_000, 0 <= r_us < 1_000_000, 0 <= r_ns < 1_000_000_000,
    ensures norm_spec(s) == Some(s as i64),
            norm_spec(s * 1_000 + r_ms) == Some(s as i64),
            norm_spec(s * 1_000_000 + r_us) == Some(s as i64),
            norm_spec(s * 1_000_000_000 + r_ns) == Some(s as i64),
{
    assert((s * 1_000 + r_ms) / 1_000 == s) by (nonlinear_arith) requires 0 <= r_ms < 1_000;
    assert((s * 1_000_000 + r_us) / 1_000_000 == s) by (nonlinear_arith) requires 0 <= r_us < 1_000_000;
    assert((s * 1_000_000_000 + r_ns) / 1_000_000_000 == s) by (nonlinear_arith) requires 0 <= r_ns < 1_000_000_000;
}

} // verus!
fn main() {}
