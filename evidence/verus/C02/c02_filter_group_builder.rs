// GENERATED on every run by tools/verus_run.py from /repo and contracts/verus/c02_filter_group_builder.spec
use vstd::prelude::*;
verus! {


pub enum CompareOp {
    Eq,
    Neq,
    Gt,
    Gte,
    Lt,
    Lte,
    In,
}
pub enum Expr {
    Compare {
        field: String,
        op: CompareOp,
        value: Value,
    },
    In {
        field: String,
        values: Vec<Value>,
    },
    And(Box<Expr>, Box<Expr>),
    Or(Box<Expr>, Box<Expr>),
    Not(Box<Expr>),
}
pub enum FilterGroup {
    Filter {
        column: String,
        operation: Option<CompareOp>,
        value: Option<ScalarValue>,
        priority: u32,
        uid: Option<String>,
        index_strategy: Option<IndexStrategy>,
    },
    And(Vec<FilterGroup>),
    Or(Vec<FilterGroup>),
    Not(Box<FilterGroup>),
}
pub struct FilterGroupBuilder;
pub struct InExpansion;

impl FilterGroup {
    pub fn new_filter(
        column: String,
        operation: Option<CompareOp>,
        value: Option<ScalarValue>,
        event_type_uid: Option<String>,
    ) -> (r: Self)
     ensures forall|row: Row| sem_g(r, row) == leaf(column@, operation, value, row), // OBL:C02.filter_group.new_filter.is_the_leaf_it_was_given
{
        let priority = FilterPriority::for_field(&column);
        Self::Filter {
            column,
            operation,
            value,
            priority,
            uid: event_type_uid,
            index_strategy: None,
        }
    }

    pub fn new_equality_filter(
        column: String,
        value: ScalarValue,
        event_type_uid: Option<String>,
    ) -> (r: Self)
     ensures forall|row: Row| sem_g(r, row) == leaf(column@, Some(CompareOp::Eq), Some(value), row), // OBL:C02.filter_group.new_equality_filter.is_an_equality_leaf
{
        Self::new_filter(column, Some(CompareOp::Eq), Some(value), event_type_uid)
    }

}

impl InExpansion {
    pub fn expand_in(
        field: String,
        values: &[Value],
        event_type_uid: &Option<String>,
    ) -> (r: Option<FilterGroup>)
     ensures r is Some ==> forall|row: Row| sem_g(r->Some_0, row) == in_sem(field@, values@, row), // OBL:C02.in_expansion.expand_in.matches_rows_equal_to_some_listed_value
{
         proof { lemma_in_single(field@, values@); lemma_or_is_any(); }
        if values.is_empty() {
            return None; // Empty IN list matches nothing
        }

        // Single value: create a single equality filter
        if values.len() == 1 {
            return Some(FilterGroup::new_equality_filter(
                field,
                ScalarValue::from(values[0].clone()),
                event_type_uid.clone(),
            ));
        }

        // Multiple values: expand to OR of equality filters
        // This allows efficient zone collection: each equality uses ZoneXorIndex,
        // then zones are unioned by ZoneGroupCollector
        ();

        let equality_filters =
            FilterGroup::new_equality_filters(field, values, event_type_uid.clone());

        Some(FilterGroup::Or(equality_filters))
    }

    pub fn expand_or_equalities(
        field: String,
        values: Vec<Value>,
        event_type_uid: &Option<String>,
    ) -> (r: FilterGroup)
     ensures forall|row: Row| sem_g(r, row) == in_sem(field@, values@, row), // OBL:C02.in_expansion.expand_or_equalities.matches_rows_equal_to_some_listed_value
{
         proof { lemma_or_is_any(); }
        ();

        let equality_filters =
            FilterGroup::new_equality_filters(field, &values, event_type_uid.clone());

        FilterGroup::Or(equality_filters)
    }

}

impl FilterGroupBuilder {
    pub fn build(expr: &Expr, event_type_uid: &Option<String>) -> (r: Option<FilterGroup>)
     ensures r is Some ==> forall|row: Row| #![trigger sem_g(r->Some_0, row)] #![trigger sem_e(*expr, row)] sem_g(r->Some_0, row) == sem_e(*expr, row), // OBL:C02.filter_group_builder.build.group_matches_exactly_the_rows_the_expression_matches
     decreases expr
{
        match expr {
            Expr::Compare { field, op, value } => Some(FilterGroup::new_filter(
                field.clone(),
                Some(op.clone()),
                Some(ScalarValue::from(value.clone())),
                event_type_uid.clone(),
            )),
            Expr::In { field, values } => {
                InExpansion::expand_in(field.clone(), values, event_type_uid)
            }
            Expr::And(left, right) => {
                 assert(forall|row: Row| sem_e(*expr, row) == (sem_e(**left, row) && sem_e(**right, row)));
                let left_group = Self::build(left, event_type_uid)?;
                let right_group = Self::build(right, event_type_uid)?;
                 proof { lemma_and2(left_group, right_group); }
                Some(FilterGroup::And(vec![left_group, right_group]))
            }
            Expr::Or(left, right) => {
                 assert(forall|row: Row| sem_e(*expr, row) == (sem_e(**left, row) || sem_e(**right, row)));
                // Optimization: Convert OR of equality comparisons on same field to expanded OR
                // This allows efficient zone collection: each equality uses ZoneXorIndex,
                // then zones are unioned by ZoneGroupCollector
                if let Some((field, values)) = Self::extract_or_equality_values(left, right) {
                    return Some(InExpansion::expand_or_equalities(
                        field,
                        values,
                        event_type_uid,
                    ));
                }

                // Otherwise, preserve OR structure
                let left_group = Self::build(left, event_type_uid)?;
                let right_group = Self::build(right, event_type_uid)?;

                // Flatten nested OR structures only when they can be flattened
                // (i.e., when all children are equality comparisons on the same field)
                // Otherwise, preserve the nested structure
                let mut children = Vec::new();
                 let ghost lg = left_group; let ghost rg = right_group;

                // Handle left group
                let should_flatten_left = matches!(&left_group, FilterGroup::Or(children) if Self::can_flatten_or(children));
                if should_flatten_left {
                    if let FilterGroup::Or(mut left_children) = left_group {
                        children.append(&mut left_children);
                    }
                } else {
                    children.push(left_group);
                }

                // Handle right group
                let should_flatten_right = matches!(&right_group, FilterGroup::Or(children) if Self::can_flatten_or(children));
                 let ghost mid = children@;
                 assert(side(lg, mid));
                 proof { lemma_or_final(lg, rg, mid); }
                if should_flatten_right {
                    if let FilterGroup::Or(mut right_children) = right_group {
                        children.append(&mut right_children);
                    }
                } else {
                    children.push(right_group);
                }

                Some(FilterGroup::Or(children))
            }
            Expr::Not(inner) => {
                 assert(forall|row: Row| sem_e(*expr, row) == !sem_e(**inner, row));
                let inner_group = Self::build(inner, event_type_uid)?;
                Some(FilterGroup::Not(Box::new(inner_group)))
            }
        }
    }

}

// ---- spec functions and lemmas from the contract file ----
// ---- TRUSTED declarations: JSON / scalar values, a row, and the functions left external. `leaf` is the (uninterpreted)
// ---- meaning of one comparison on a row; both the expression and the filter group are interpreted over the same leaves,
// ---- so the contract is about the LOGICAL STRUCTURE the builder produces, not about how a leaf is evaluated
// ---- (that is the Kani units c02_conditions / c02_builder).
#[verifier::external_body]
pub struct Value { _p: core::marker::PhantomData<()> }
#[verifier::external_body]
pub struct ScalarValue { _p: core::marker::PhantomData<()> }
#[verifier::external_body]
pub struct IndexStrategy { _p: core::marker::PhantomData<()> }
#[verifier::external_body]
pub struct Row { _p: core::marker::PhantomData<()> }
pub struct FilterPriority;
impl FilterPriority {
    #[verifier::external_body]
    pub fn for_field(column: &String) -> u32 { unimplemented!() }
}
pub uninterp spec fn leaf(column: Seq<char>, op: Option<CompareOp>, value: Option<ScalarValue>, row: Row) -> bool;
pub uninterp spec fn scalar_of(v: Value) -> ScalarValue;

pub open spec fn sem_g(g: FilterGroup, row: Row) -> bool
    decreases g
{
    match g {
        FilterGroup::Filter { column, operation, value, .. } => leaf(column@, operation, value, row),
        FilterGroup::And(cs) => forall|i: int| 0 <= i < cs@.len() ==> sem_g(#[trigger] cs@[i], row),
        FilterGroup::Or(cs) => exists|i: int| 0 <= i < cs@.len() && sem_g(#[trigger] cs@[i], row),
        FilterGroup::Not(b) => !sem_g(*b, row),
    }
}
pub open spec fn sem_e(e: Expr, row: Row) -> bool
    decreases e
{
    match e {
        Expr::Compare { field, op, value } => leaf(field@, Some(op), Some(scalar_of(value)), row),
        Expr::In { field, values } => exists|i: int| 0 <= i < values@.len() && leaf(field@, Some(CompareOp::Eq), Some(scalar_of(#[trigger] values@[i])), row),
        Expr::And(l, r) => sem_e(*l, row) && sem_e(*r, row),
        Expr::Or(l, r) => sem_e(*l, row) || sem_e(*r, row),
        Expr::Not(i) => !sem_e(*i, row),
    }
}



pub open spec fn in_sem(field: Seq<char>, values: Seq<Value>, row: Row) -> bool {
    exists|i: int| 0 <= i < values.len() && leaf(field, Some(CompareOp::Eq), Some(scalar_of(#[trigger] values[i])), row)
}
impl Clone for CompareOp {
    #[verifier::external_body]
    fn clone(&self) -> (r: Self) ensures r == *self { unimplemented!() }
}
impl Clone for Value {
    #[verifier::external_body]
    fn clone(&self) -> (r: Self) ensures r == *self { unimplemented!() }
}
impl ScalarValue {
    #[verifier::external_body]
    pub fn from(v: Value) -> (r: ScalarValue) ensures r == scalar_of(v) { unimplemented!() }
}
impl FilterGroup {
    /// iterator adapters (`values.iter().map(|v| Self::new_equality_filter(..)).collect()`): TRUSTED, one equality leaf per listed value
    #[verifier::external_body]
    pub fn new_equality_filters(column: String, values: &[Value], event_type_uid: Option<String>) -> (r: Vec<FilterGroup>)
        ensures forall|row: Row| any(r@, row) == in_sem(column@, values@, row)
    { unimplemented!() }
}
impl FilterGroupBuilder {
    /// whether an OR's children are flattened is a layout decision: its result is unconstrained here
    #[verifier::external_body]
    fn can_flatten_or(children: &[FilterGroup]) -> bool { unimplemented!() }
    /// TRUSTED (match guards + closure): when it answers Some((field, values)), "left OR right" is "field equals one of values"
    #[verifier::external_body]
    fn extract_or_equality_values(left: &Expr, right: &Expr) -> (r: Option<(String, Vec<Value>)>)
        ensures r is Some ==> forall|row: Row| (sem_e(*left, row) || sem_e(*right, row)) == in_sem(r->Some_0.0@, r->Some_0.1@, row)
    { unimplemented!() }
}
pub proof fn lemma_or_is_any()
    ensures forall|v: Vec<FilterGroup>, row: Row| #[trigger] sem_g(FilterGroup::Or(v), row) == any(v@, row)
{
    assert forall|v: Vec<FilterGroup>, row: Row| #[trigger] sem_g(FilterGroup::Or(v), row) == any(v@, row) by {
        if sem_g(FilterGroup::Or(v), row) {
            let i = choose|i: int| 0 <= i < v@.len() && sem_g(#[trigger] v@[i], row);
            assert(sem_g(v@[i], row));
        }
        if any(v@, row) {
            let i = choose|i: int| 0 <= i < v@.len() && sem_g(#[trigger] v@[i], row);
            assert(sem_g(v@[i], row));
            assert(FilterGroup::Or(v)->Or_0@[i] == v@[i]);
        }
    }
}
pub proof fn lemma_in_single(field: Seq<char>, values: Seq<Value>)
    ensures values.len() == 1 ==> forall|row: Row| in_sem(field, values, row) == leaf(field, Some(CompareOp::Eq), Some(scalar_of(values[0])), row)
{
    if values.len() == 1 {
        assert forall|row: Row| in_sem(field, values, row) == leaf(field, Some(CompareOp::Eq), Some(scalar_of(values[0])), row) by {
            if in_sem(field, values, row) {
                let i = choose|i: int| 0 <= i < values.len() && leaf(field, Some(CompareOp::Eq), Some(scalar_of(#[trigger] values[i])), row);
                assert(i == 0);
            }
        }
    }
}
pub open spec fn any(s: Seq<FilterGroup>, row: Row) -> bool { exists|i: int| 0 <= i < s.len() && sem_g(#[trigger] s[i], row) }
pub proof fn lemma_and2(a: FilterGroup, b: FilterGroup)
    ensures forall|v: Vec<FilterGroup>, row: Row| v@ == seq![a, b] ==> #[trigger] sem_g(FilterGroup::And(v), row) == (sem_g(a, row) && sem_g(b, row))
{
    assert forall|v: Vec<FilterGroup>, row: Row| v@ == seq![a, b] implies #[trigger] sem_g(FilterGroup::And(v), row) == (sem_g(a, row) && sem_g(b, row)) by {
        assert(v@.len() == 2);
        assert(v@[0] == a && v@[1] == b);
        if sem_g(a, row) && sem_g(b, row) {
            assert forall|i: int| 0 <= i < v@.len() implies sem_g(#[trigger] v@[i], row) by { }
        }
        if sem_g(FilterGroup::And(v), row) {
            assert(sem_g(v@[0], row));
            assert(sem_g(v@[1], row));
        }
    }
}
/// the children list after one side has been handled: either the side's own OR-children (flattened) or the side itself
pub open spec fn side(g: FilterGroup, s: Seq<FilterGroup>) -> bool {
    s =~= seq![g] || (g is Or && s =~= g->Or_0@)
}
pub proof fn lemma_side(g: FilterGroup, s: Seq<FilterGroup>, row: Row)
    requires side(g, s)
    ensures any(s, row) == sem_g(g, row)
{
    if s =~= seq![g] {
        assert(s[0] == g);
        if any(s, row) { let i = choose|i: int| 0 <= i < s.len() && sem_g(#[trigger] s[i], row); assert(i == 0); }
    } else {
        assert(s == g->Or_0@);
    }
}
pub proof fn lemma_any_concat(a: Seq<FilterGroup>, b: Seq<FilterGroup>, row: Row)
    ensures any(a + b, row) == (any(a, row) || any(b, row))
{
    let c = a + b;
    if any(a, row) { let i = choose|i: int| 0 <= i < a.len() && sem_g(#[trigger] a[i], row); assert(c[i] == a[i]); }
    if any(b, row) { let i = choose|i: int| 0 <= i < b.len() && sem_g(#[trigger] b[i], row); assert(c[a.len() + i] == b[i]); }
    if any(c, row) {
        let i = choose|i: int| 0 <= i < c.len() && sem_g(#[trigger] c[i], row);
        if i < a.len() { assert(c[i] == a[i]); } else { assert(c[i] == b[i - a.len()]); }
    }
}
pub proof fn lemma_or_final(lg: FilterGroup, rg: FilterGroup, mid: Seq<FilterGroup>)
    requires side(lg, mid)
    ensures forall|v: Vec<FilterGroup>, row: Row| (v@ == mid.push(rg) || (rg is Or && v@ == mid + rg->Or_0@))
        ==> #[trigger] sem_g(FilterGroup::Or(v), row) == (sem_g(lg, row) || sem_g(rg, row))
{
    assert forall|v: Vec<FilterGroup>, row: Row| (v@ == mid.push(rg) || (rg is Or && v@ == mid + rg->Or_0@))
        implies #[trigger] sem_g(FilterGroup::Or(v), row) == (sem_g(lg, row) || sem_g(rg, row)) by {
        lemma_side(lg, mid, row);
        let b = if v@ == mid.push(rg) { seq![rg] } else { rg->Or_0@ };
        assert(side(rg, b));
        lemma_side(rg, b, row);
        assert(v@ =~= mid + b);
        lemma_any_concat(mid, b, row);
        if sem_g(FilterGroup::Or(v), row) {
            let i = choose|i: int| 0 <= i < v@.len() && sem_g(#[trigger] v@[i], row);
            assert(sem_g(v@[i], row));
        }
        if any(v@, row) {
            let i = choose|i: int| 0 <= i < v@.len() && sem_g(#[trigger] v@[i], row);
            assert(sem_g(v@[i], row));
        }
    }
}

} // verus!
fn main() {}
