// GENERATED on every run by tools/verus_run.py from /repo and contracts/verus/c02_evaluator_builder.spec
#![feature(allocator_api)]
use vstd::prelude::*;
verus! {


pub enum CompareOp {
    Eq,
    Neq,
    Gt,
    Gte,
    Lt,
    Lte,
    In,
}
pub enum Expr {
    Compare {
        field: String,
        op: CompareOp,
        value: Value,
    },
    In {
        field: String,
        values: Vec<Value>,
    },
    And(Box<Expr>, Box<Expr>),
    Or(Box<Expr>, Box<Expr>),
    Not(Box<Expr>),
}
pub enum LogicalOp {
    And,
    Or,
    Not,
}
pub struct ConditionEvaluatorBuilder {
    pub evaluator: ConditionEvaluator,
    pub temporal_fields: Option<HashSet<String>>,
    pub text_fields: Option<HashSet<String>>,
}

impl ConditionEvaluatorBuilder {
    pub fn new() -> (r: Self)
     ensures conds(r.evaluator) == Seq::<BoxedCondition>::empty(), // OBL:C02.evaluator_builder.new.starts_empty
{
        Self {
            evaluator: ConditionEvaluator::new(),
            temporal_fields: None,
            text_fields: None,
        }
    }

    pub fn into_evaluator(self) -> (r: ConditionEvaluator)
     ensures r == self.evaluator, // OBL:C02.evaluator_builder.into_evaluator.hands_over_the_conditions
{
        ();
        self.evaluator
    }

    pub fn sub_builder(&self) -> (r: Self)
     ensures conds(r.evaluator) == Seq::<BoxedCondition>::empty(), // OBL:C02.evaluator_builder.sub_builder.starts_empty
{
        Self {
            evaluator: ConditionEvaluator::new(),
            temporal_fields: self.temporal_fields.clone(),
            text_fields: self.text_fields.clone(),
        }
    }

    pub fn add_where_clause(&mut self, where_clause: &Expr)
     ensures
         supported(*where_clause) ==> conds(final(self).evaluator).len() == conds(old(self).evaluator).len() + 1
             && conds(final(self).evaluator).take(conds(old(self).evaluator).len() as int) == conds(old(self).evaluator), // OBL:C02.evaluator_builder.add_where_clause.appends_exactly_one_condition
         supported(*where_clause) ==> forall|row: Row| csem(conds(final(self).evaluator).last(), row) == sem_e(*where_clause, row), // OBL:C02.evaluator_builder.add_where_clause.appended_condition_means_the_expression
     decreases where_clause
{
         broadcast use into_seq_vec, lemma_list2, lemma_list_not;
        match where_clause {
            Expr::Compare { field, op, value } => {
self.evaluator.__compare_arm(field, op, value);
}
            Expr::In { field, values } => {
self.evaluator.__in_arm(field, values);
}
            Expr::And(left, right) => {
                 assert(supported(*where_clause) == (supported(**left) && supported(**right)));
                 assert(forall|row: Row| sem_e(*where_clause, row) == (sem_e(**left, row) && sem_e(**right, row)));
                ();
                let mut left_builder = self.sub_builder();
                left_builder.add_where_clause(left);
                let mut right_builder = self.sub_builder();
                right_builder.add_where_clause(right);

                let left_condition = left_builder.into_evaluator().into_conditions();
                let right_condition = right_builder.into_evaluator().into_conditions();

                let mut combined_conditions = Vec::new();
                combined_conditions.extend(left_condition);
                combined_conditions.extend(right_condition);

                let logical_condition = LogicalCondition::new(combined_conditions, LogicalOp::And);
                self.evaluator.add_logical_condition(logical_condition);
            }
            Expr::Or(left, right) => {
                 assert(supported(*where_clause) == (supported(**left) && supported(**right)));
                 assert(forall|row: Row| sem_e(*where_clause, row) == (sem_e(**left, row) || sem_e(**right, row)));
                ();
                let mut left_builder = self.sub_builder();
                left_builder.add_where_clause(left);
                let mut right_builder = self.sub_builder();
                right_builder.add_where_clause(right);

                let left_condition = left_builder.into_evaluator().into_conditions();
                let right_condition = right_builder.into_evaluator().into_conditions();

                let mut combined_conditions = Vec::new();
                combined_conditions.extend(left_condition);
                combined_conditions.extend(right_condition);

                let logical_condition = LogicalCondition::new(combined_conditions, LogicalOp::Or);
                self.evaluator.add_logical_condition(logical_condition);
            }
            Expr::Not(expr) => {
                 assert(supported(*where_clause) == supported(**expr));
                 assert(forall|row: Row| sem_e(*where_clause, row) == !sem_e(**expr, row));
                ();
                let mut expr_builder = self.sub_builder();
                expr_builder.add_where_clause(expr);

                let expr_condition = expr_builder.into_evaluator().into_conditions();

                let logical_condition = LogicalCondition::new(expr_condition, LogicalOp::Not);
                self.evaluator.add_logical_condition(logical_condition);
            }
        }
    }

}

// ---- spec functions and lemmas from the contract file ----
// ---- TRUSTED declarations. The evaluator is seen through `conds` (its condition list); a boxed condition has an
// ---- uninterpreted meaning `csem`; `axiom_logical` states what LogicalCondition::evaluate computes (AND = all, OR = any,
// ---- NOT = negation of the FIRST condition) - the Kani unit c02_conditions checks the real evaluate against the connectives.
// ---- E8: the Compare and IN arms (string / number / time-literal conversion, iterator adapters) are replaced by the two calls
// ---- `__compare_arm` / `__in_arm`. Their specification is what the arms do: IN always appends one condition; Compare appends
// ---- one condition unless the literal is of an unsupported kind (a JSON float, bool or null), in which case NOTHING is
// ---- appended - that case is the known finding C02-float-literal-dropped, and every obligation here is stated for
// ---- expressions whose literals are supported.
#[verifier::external_body]
pub struct Value { _p: core::marker::PhantomData<()> }
#[verifier::external_body]
pub struct Row { _p: core::marker::PhantomData<()> }
/// the set of time-typed field names carried by the builder (only cloned here)
#[verifier::external_body]
#[verifier::reject_recursive_types(T)]
pub struct HashSet<T> { _p: core::marker::PhantomData<T> }
impl Clone for HashSet<String> {
    #[verifier::external_body]
    fn clone(&self) -> (r: Self) ensures r == *self { unimplemented!() }
}
#[verifier::external_body]
pub struct BoxedCondition { _p: core::marker::PhantomData<()> }
#[verifier::external_body]
pub struct LogicalCondition { _p: core::marker::PhantomData<()> }
#[verifier::external_body]
pub struct ConditionEvaluator { _p: core::marker::PhantomData<()> }

pub uninterp spec fn csem(c: BoxedCondition, row: Row) -> bool;
pub uninterp spec fn conds(e: ConditionEvaluator) -> Seq<BoxedCondition>;
pub uninterp spec fn l_list(l: LogicalCondition) -> Seq<BoxedCondition>;
pub uninterp spec fn l_op(l: LogicalCondition) -> LogicalOp;
pub uninterp spec fn boxed(l: LogicalCondition) -> BoxedCondition;

impl LogicalCondition {
    #[verifier::external_body]
    pub fn new(conditions: Vec<BoxedCondition>, operation: LogicalOp) -> (r: Self)
        ensures l_list(r) == conditions@, l_op(r) == operation
    { unimplemented!() }
}
impl ConditionEvaluator {
    #[verifier::external_body]
    pub fn new() -> (r: Self) ensures conds(r) == Seq::<BoxedCondition>::empty() { unimplemented!() }
    #[verifier::external_body]
    pub fn add_logical_condition(&mut self, condition: LogicalCondition)
        ensures conds(*final(self)) == conds(*old(self)).push(boxed(condition))
    { unimplemented!() }
    #[verifier::external_body]
    pub fn __compare_arm(&mut self, field: &String, op: &CompareOp, value: &Value)
        ensures conds(*final(self)) == (if lit_supported(*value) { conds(*old(self)).push(leaf_cond(field@, *op, *value)) } else { conds(*old(self)) })
    { unimplemented!() }
    #[verifier::external_body]
    pub fn __in_arm(&mut self, field: &String, values: &Vec<Value>)
        ensures conds(*final(self)) == conds(*old(self)).push(in_cond(field@, values@))
    { unimplemented!() }
    #[verifier::external_body]
    pub fn into_conditions(self) -> (r: Vec<BoxedCondition>) ensures r@ == conds(self) { unimplemented!() }
}
pub uninterp spec fn lit_supported(v: Value) -> bool;
pub uninterp spec fn leaf_cond(field: Seq<char>, op: CompareOp, value: Value) -> BoxedCondition;
pub uninterp spec fn in_cond(field: Seq<char>, values: Seq<Value>) -> BoxedCondition;
pub open spec fn sem_e(e: Expr, row: Row) -> bool
    decreases e
{
    match e {
        Expr::Compare { field, op, value } => csem(leaf_cond(field@, op, value), row),
        Expr::In { field, values } => csem(in_cond(field@, values@), row),
        Expr::And(l, r) => sem_e(*l, row) && sem_e(*r, row),
        Expr::Or(l, r) => sem_e(*l, row) || sem_e(*r, row),
        Expr::Not(i) => !sem_e(*i, row),
    }
}
pub open spec fn supported(e: Expr) -> bool
    decreases e
{
    match e {
        Expr::Compare { field, op, value } => lit_supported(value),
        Expr::In { field, values } => true,
        Expr::And(l, r) => supported(*l) && supported(*r),
        Expr::Or(l, r) => supported(*l) && supported(*r),
        Expr::Not(i) => supported(*i),
    }
}
pub open spec fn lsem(l: LogicalCondition, row: Row) -> bool {
    match l_op(l) {
        LogicalOp::And => forall|i: int| 0 <= i < l_list(l).len() ==> csem(#[trigger] l_list(l)[i], row),
        LogicalOp::Or => exists|i: int| 0 <= i < l_list(l).len() && csem(#[trigger] l_list(l)[i], row),
        LogicalOp::Not => !csem(l_list(l)[0], row),
    }
}
/// TRUSTED: a boxed LogicalCondition evaluates as LogicalCondition::evaluate does (Kani unit c02_conditions, logical_connectives)
pub axiom fn axiom_logical(l: LogicalCondition, row: Row)
    ensures csem(boxed(l), row) == lsem(l, row);
pub open spec fn esem(e: ConditionEvaluator, row: Row) -> bool {
    forall|i: int| 0 <= i < conds(e).len() ==> csem(#[trigger] conds(e)[i], row)
}
pub uninterp spec fn into_seq<T, I>(i: I) -> Seq<T>;
pub assume_specification<T, A: core::alloc::Allocator, I: IntoIterator<Item = T>>[ <Vec<T, A> as Extend<T>>::extend ](v: &mut Vec<T, A>, i: I)
    ensures final(v)@ == old(v)@ + into_seq::<T, I>(i);
pub broadcast axiom fn into_seq_vec<T>(v: Vec<T>)
    ensures #[trigger] into_seq::<T, Vec<T>>(v) == v@;
pub broadcast proof fn lemma_list2(l: LogicalCondition, row: Row)
    requires l_list(l).len() == 2, l_op(l) is And || l_op(l) is Or
    ensures #[trigger] csem(boxed(l), row) == (if l_op(l) is And { csem(l_list(l)[0], row) && csem(l_list(l)[1], row) } else { csem(l_list(l)[0], row) || csem(l_list(l)[1], row) })
{
    axiom_logical(l, row);
    let s = l_list(l);
    if l_op(l) is And {
        if csem(s[0], row) && csem(s[1], row) {
            assert forall|i: int| 0 <= i < s.len() implies csem(#[trigger] s[i], row) by { }
        }
    } else {
        if lsem(l, row) {
            let i = choose|i: int| 0 <= i < s.len() && csem(#[trigger] s[i], row);
            assert(i == 0 || i == 1);
        }
    }
}
pub broadcast proof fn lemma_list_not(l: LogicalCondition, row: Row)
    requires l_op(l) is Not, l_list(l).len() >= 1
    ensures #[trigger] csem(boxed(l), row) == !csem(l_list(l)[0], row)
{
    axiom_logical(l, row);
}

} // verus!
fn main() {}
