// GENERATED on every run by tools/verus_run.py from /repo and contracts/verus/c09_algebra.spec
use vstd::prelude::*;
verus! {


pub struct CountAll {
    pub count: i64,
}
pub struct CountField {
    pub field: String,
    pub count: i64,
}
pub struct Sum {
    pub field: String,
    pub sum: i64,
}
pub struct Avg {
    pub field: String,
    pub sum: i64,
    pub count: i64,
}

impl CountAll {
    pub fn new() -> (r: Self)
     ensures r.count == 0, // OBL:C09.algebra.CountAll.new.zero
{ assert(false); /* CANARY */ 
        Self { count: 0 }
    }

    pub fn update(&mut self)
     requires old(self).count < i64::MAX,
     ensures final(self).count == old(self).count + 1, // OBL:C09.algebra.CountAll.update.plus_one
{ assert(false); /* CANARY */ 
        self.count += 1;
    }

    pub fn merge(&mut self, other: &CountAll)
     requires i64::MIN <= old(self).count + other.count <= i64::MAX,
     ensures final(self).count == old(self).count + other.count, // OBL:C09.algebra.CountAll.merge.adds
{ assert(false); /* CANARY */ 
        self.count += other.count;
    }

}

impl CountField {
    pub fn new(field: String) -> (r: Self)
     ensures r.count == 0, r.field == field, // OBL:C09.algebra.CountField.new.zero
{ assert(false); /* CANARY */ 
        Self { field, count: 0 }
    }

    pub fn update_non_null(&mut self)
     requires old(self).count < i64::MAX,
     ensures final(self).count == old(self).count + 1, final(self).field == old(self).field, // OBL:C09.algebra.CountField.update_non_null.plus_one
{ assert(false); /* CANARY */ 
        self.count += 1;
    }

    pub fn merge(&mut self, other: &CountField)
     requires i64::MIN <= old(self).count + other.count <= i64::MAX,
     ensures final(self).count == old(self).count + other.count, final(self).field == old(self).field, // OBL:C09.algebra.CountField.merge.adds
{ assert(false); /* CANARY */ 
        self.count += other.count;
    }

}

impl Sum {
    pub fn new(field: String) -> (r: Self)
     ensures r.sum == 0, r.field == field, // OBL:C09.algebra.Sum.new.zero
{ assert(false); /* CANARY */ 
        Self { field, sum: 0 }
    }

    pub fn update_value_i64(&mut self, v: i64)
     requires i64::MIN <= old(self).sum + v <= i64::MAX,
     ensures final(self).sum == old(self).sum + v, final(self).field == old(self).field, // OBL:C09.algebra.Sum.update_value_i64.adds
{ assert(false); /* CANARY */ 
        self.sum += v;
    }

    pub fn merge(&mut self, other: &Sum)
     requires i64::MIN <= old(self).sum + other.sum <= i64::MAX,
     ensures final(self).sum == old(self).sum + other.sum, final(self).field == old(self).field, // OBL:C09.algebra.Sum.merge.adds
{ assert(false); /* CANARY */ 
        self.sum += other.sum;
    }

}

impl Avg {
    pub fn new(field: String) -> (r: Self)
     ensures r.sum == 0, r.count == 0, r.field == field, // OBL:C09.algebra.Avg.new.zero
{ assert(false); /* CANARY */ 
        Self {
            field,
            sum: 0,
            count: 0,
        }
    }

    pub fn update_value_i64(&mut self, v: i64)
     requires i64::MIN <= old(self).sum + v <= i64::MAX, old(self).count < i64::MAX,
     ensures final(self).sum == old(self).sum + v, // OBL:C09.algebra.Avg.update_value_i64.sum
             final(self).count == old(self).count + 1, // OBL:C09.algebra.Avg.update_value_i64.count
             final(self).field == old(self).field,
{ assert(false); /* CANARY */ 
        self.sum += v;
        self.count += 1;
    }

    pub fn merge(&mut self, other: &Avg)
     requires i64::MIN <= old(self).sum + other.sum <= i64::MAX, i64::MIN <= old(self).count + other.count <= i64::MAX,
     ensures final(self).sum == old(self).sum + other.sum, // OBL:C09.algebra.Avg.merge.sum
             final(self).count == old(self).count + other.count, // OBL:C09.algebra.Avg.merge.count
             final(self).field == old(self).field,
{ assert(false); /* CANARY */ 
        self.sum += other.sum;
        self.count += other.count;
    }

    pub fn sum_count(&self) -> (r: (i64, i64))
     ensures r.0 == self.sum, r.1 == self.count, // OBL:C09.algebra.Avg.sum_count.exposes_state
{ assert(false); /* CANARY */ 
        (self.sum, self.count)
    }

}

// ---- spec functions and lemmas from the contract file ----
pub open spec fn total(s: Seq<i64>) -> int
    decreases s.len()
{
    if s.len() == 0 { 0 } else { total(s.drop_last()) + s.last() as int }
}

/// "running sums fit i64": every prefix total is representable
pub open spec fn fits(s: Seq<i64>) -> bool {
    forall|k: int| 0 <= k <= s.len() ==> i64::MIN <= #[trigger] total(s.take(k)) <= i64::MAX
}

pub proof fn lemma_total_concat(a: Seq<i64>, b: Seq<i64>)
    ensures total(a + b) == total(a) + total(b)
    decreases b.len()
{ assert(false); /* CANARY */ 
    if b.len() == 0 {
        assert(a + b =~= a);
    } else {
        lemma_total_concat(a, b.drop_last());
        assert((a + b).drop_last() =~= a + b.drop_last());
        assert((a + b).last() == b.last());
    }
}

pub fn fold_avg(v: &Vec<i64>, field: String) -> (r: Avg)
    requires fits(v@), v.len() < i64::MAX
    ensures r.sum == total(v@), r.count == v.len()
{ assert(false); /* CANARY */ 
    let mut st = Avg::new(field);
    let mut i: usize = 0;
    while i < v.len()
        invariant 0 <= i <= v.len(), fits(v@), v.len() < i64::MAX,
                  st.sum == total(v@.take(i as int)), st.count == i,
        decreases v.len() - i
    {
        proof {
            assert(v@.take(i as int + 1).drop_last() =~= v@.take(i as int));
            assert(v@.take(i as int + 1).last() == v@[i as int]);
            assert(i64::MIN <= total(v@.take(i as int + 1)) <= i64::MAX);
        }
        st.update_value_i64(v[i]);
        i += 1;
    }
    proof { assert(v@.take(v.len() as int) =~= v@); }
    st
}

pub fn fold_sum(v: &Vec<i64>, field: String) -> (r: Sum)
    requires fits(v@)
    ensures r.sum == total(v@)
{ assert(false); /* CANARY */ 
    let mut st = Sum::new(field);
    let mut i: usize = 0;
    while i < v.len()
        invariant 0 <= i <= v.len(), fits(v@), st.sum == total(v@.take(i as int)),
        decreases v.len() - i
    {
        proof {
            assert(v@.take(i as int + 1).drop_last() =~= v@.take(i as int));
            assert(v@.take(i as int + 1).last() == v@[i as int]);
            assert(i64::MIN <= total(v@.take(i as int + 1)) <= i64::MAX);
        }
        st.update_value_i64(v[i]);
        i += 1;
    }
    proof { assert(v@.take(v.len() as int) =~= v@); }
    st
}

pub fn fold_count(n: usize) -> (r: CountAll)
    requires n < i64::MAX
    ensures r.count == n
{ assert(false); /* CANARY */ 
    let mut st = CountAll::new();
    let mut i: usize = 0;
    while i < n
        invariant 0 <= i <= n, n < i64::MAX, st.count == i,
        decreases n - i
    {
        st.update();
        i += 1;
    }
    st
}

/// the statement "regardless of how those events are split": any split point
pub fn avg_split_independent(a: &Vec<i64>, b: &Vec<i64>, f1: String, f2: String) -> (r: Avg)
    requires fits(a@), fits(b@), fits(a@ + b@), a.len() + b.len() < i64::MAX
    ensures r.sum == total(a@ + b@), r.count == (a@ + b@).len()
{ assert(false); /* CANARY */ 
    let mut x = fold_avg(a, f1);
    let y = fold_avg(b, f2);
    proof {
        lemma_total_concat(a@, b@);
        assert((a@ + b@).take((a@ + b@).len() as int) =~= a@ + b@);
    }
    x.merge(&y);
    x
}

pub fn sum_split_independent(a: &Vec<i64>, b: &Vec<i64>, f1: String, f2: String) -> (r: Sum)
    requires fits(a@), fits(b@), fits(a@ + b@)
    ensures r.sum == total(a@ + b@)
{ assert(false); /* CANARY */ 
    let mut x = fold_sum(a, f1);
    let y = fold_sum(b, f2);
    proof {
        lemma_total_concat(a@, b@);
        assert((a@ + b@).take((a@ + b@).len() as int) =~= a@ + b@);
    }
    x.merge(&y);
    x
}

pub fn count_split_independent(n: usize, m: usize) -> (r: CountAll)
    requires n + m < i64::MAX
    ensures r.count == n + m
{ assert(false); /* CANARY */ 
    let mut x = fold_count(n);
    let y = fold_count(m);
    x.merge(&y);
    x
}

} // verus!
fn main() { assert(false); /* CANARY */ }
