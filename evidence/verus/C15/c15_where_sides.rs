// GENERATED on every run by tools/verus_run.py from /repo and contracts/verus/c15_where_sides.spec
#![feature(allocator_api)]
use vstd::prelude::*;
verus! {


pub enum CompareOp {
    Eq,
    Neq,
    Gt,
    Gte,
    Lt,
    Lte,
    In,
}
pub enum Expr {
    Compare {
        field: String,
        op: CompareOp,
        value: Value,
    },
    In {
        field: String,
        values: Vec<Value>,
    },
    And(Box<Expr>, Box<Expr>),
    Or(Box<Expr>, Box<Expr>),
    Not(Box<Expr>),
}

pub fn transform_where_clause_for_event_type(
    expr: &Expr,
    target_event_type: &str,
) -> (r: Option<Expr>)
     ensures
         r is Some == addressed(*expr, target_event_type@), // OBL:C15.where_sides.transform.some_iff_a_condition_is_addressed_to_this_type
         r is Some ==> forall|row: Row| sem(r->Some_0, row) == #[trigger] side_sem(*expr, target_event_type@, row), // OBL:C15.where_sides.transform.result_means_the_conditions_addressed_to_this_type
     decreases *expr
{
     broadcast use lemma_unfold_side;
    match expr {
        Expr::Compare { field, op, value } => {
            // Check if field has event prefix (e.g., "purchase.amount")
            if let Some((event_type, field_name)) = parse_event_field(field) {
                if same_text(&event_type, target_event_type) {
                    // This condition applies to the target event type - replace with plain field name
                    Some(Expr::Compare {
                        field: field_name,
                        op: op.clone(),
                        value: value.clone(),
                    })
                } else {
                    // This condition applies to a different event type - remove it
                    None
                }
            } else {
                // Common field (no prefix) - keep as-is
                Some(Expr::Compare {
                    field: field.clone(),
                    op: op.clone(),
                    value: value.clone(),
                })
            }
        }
        Expr::In { field, values } => {
            // Check if field has event prefix (e.g., "purchase.amount")
            if let Some((event_type, field_name)) = parse_event_field(field) {
                if same_text(&event_type, target_event_type) {
                    // This condition applies to the target event type - replace with plain field name
                    Some(Expr::In {
                        field: field_name,
                        values: values.clone(),
                    })
                } else {
                    // This condition applies to a different event type - remove it
                    None
                }
            } else {
                // Common field (no prefix) - keep as-is
                Some(Expr::In {
                    field: field.clone(),
                    values: values.clone(),
                })
            }
        }
        Expr::And(left, right) => {
            let left_transformed = transform_where_clause_for_event_type(left, target_event_type);
            let right_transformed = transform_where_clause_for_event_type(right, target_event_type);

            match (left_transformed, right_transformed) {
                (Some(l), Some(r)) => Some(Expr::And(Box::new(l), Box::new(r))),
                (Some(l), None) => Some(l),
                (None, Some(r)) => Some(r),
                (None, None) => None,
            }
        }
        Expr::Or(left, right) => {
            // Transform both sides
            let left_transformed = transform_where_clause_for_event_type(left, target_event_type);
            let right_transformed = transform_where_clause_for_event_type(right, target_event_type);

            match (left_transformed, right_transformed) {
                (Some(l), Some(r)) => Some(Expr::Or(Box::new(l), Box::new(r))),
                (Some(l), None) => Some(l), // If right side removed, keep left (A OR nothing = A)
                (None, Some(r)) => Some(r), // If left side removed, keep right (nothing OR B = B)
                (None, None) => None,       // If both removed, remove the whole OR
            }
        }
        Expr::Not(inner) => negated(transform_where_clause_for_event_type(inner, target_event_type)),
    }
}

// ---- spec functions and lemmas from the contract file ----
// ---- TRUSTED declarations: literal values are opaque; parse_event_field (str::find + slicing) is external and seen through
// ---- `prefix_of`; String == &str is replaced by `same_text` (E6, text equality); clone of values / operators returns an equal value
#[verifier::external_body]
pub struct Value { _p: core::marker::PhantomData<()> }
#[verifier::external_body]
pub struct Row { _p: core::marker::PhantomData<()> }
impl Clone for Value {
    #[verifier::external_body]
    fn clone(&self) -> (r: Self) ensures r == *self { unimplemented!() }
}
impl Clone for CompareOp {
    #[verifier::external_body]
    fn clone(&self) -> (r: Self) ensures r == *self { unimplemented!() }
}
/// Some((event type, bare field)) when the field is written `type.field`
pub uninterp spec fn prefix_of(field: Seq<char>) -> Option<(Seq<char>, Seq<char>)>;
#[verifier::external_body]
pub fn parse_event_field(field: &str) -> (r: Option<(String, String)>)
    ensures r is Some == prefix_of(field@) is Some,
            r is Some ==> r->Some_0.0@ == prefix_of(field@)->Some_0.0 && r->Some_0.1@ == prefix_of(field@)->Some_0.1
{ unimplemented!() }
/// E6: stands for `event_type == target_event_type` (String == &str)
#[verifier::external_body]
pub fn same_text(a: &String, b: &str) -> (r: bool) ensures r == (a@ == b@) { unimplemented!() }

/// E6: stands for `<recursive call>.map(|e| Expr::Not(Box::new(e)))` (Verus knows nothing about what an unannotated closure returns)
#[verifier::external_body]
pub fn negated(o: Option<Expr>) -> (r: Option<Expr>)
    ensures r == (match o { Some(e) => Some(Expr::Not(Box::new(e))), None => None::<Expr> })
{ unimplemented!() }

/// what a single condition says about a row (whatever the evaluator computes; a function of the field NAME, operator and literal)
pub uninterp spec fn cmp_val(field: Seq<char>, op: CompareOp, value: Value, row: Row) -> bool;
pub uninterp spec fn in_val(field: Seq<char>, values: Seq<Value>, row: Row) -> bool;

/// plain meaning of an expression on one row (fields as written)
pub open spec fn sem(e: Expr, row: Row) -> bool
    decreases e
{
    match e {
        Expr::Compare { field, op, value } => cmp_val(field@, op, value, row),
        Expr::In { field, values } => in_val(field@, values@, row),
        Expr::And(l, r) => sem(*l, row) && sem(*r, row),
        Expr::Or(l, r) => sem(*l, row) || sem(*r, row),
        Expr::Not(i) => !sem(*i, row),
    }
}
/// does the expression contain a condition addressed to event type t (prefixed with t, or unprefixed)?
pub open spec fn addressed(e: Expr, t: Seq<char>) -> bool
    decreases e
{
    match e {
        Expr::Compare { field, op, value } => prefix_of(field@) is None || prefix_of(field@)->Some_0.0 == t,
        Expr::In { field, values } => prefix_of(field@) is None || prefix_of(field@)->Some_0.0 == t,
        Expr::And(l, r) => addressed(*l, t) || addressed(*r, t),
        Expr::Or(l, r) => addressed(*l, t) || addressed(*r, t),
        Expr::Not(i) => addressed(*i, t),
    }
}
/// "the WHERE conditions addressed to" event type t, evaluated on a row of that type: conditions of other types do not take part
/// (an AND / OR with one foreign side is its other side), prefixed fields are read under their bare name
pub open spec fn side_sem(e: Expr, t: Seq<char>, row: Row) -> bool
    decreases e
{
    match e {
        Expr::Compare { field, op, value } =>
            if prefix_of(field@) is Some { cmp_val(prefix_of(field@)->Some_0.1, op, value, row) } else { cmp_val(field@, op, value, row) },
        Expr::In { field, values } =>
            if prefix_of(field@) is Some { in_val(prefix_of(field@)->Some_0.1, values@, row) } else { in_val(field@, values@, row) },
        Expr::And(l, r) =>
            if addressed(*l, t) && addressed(*r, t) { side_sem(*l, t, row) && side_sem(*r, t, row) }
            else if addressed(*l, t) { side_sem(*l, t, row) } else { side_sem(*r, t, row) },
        Expr::Or(l, r) =>
            if addressed(*l, t) && addressed(*r, t) { side_sem(*l, t, row) || side_sem(*r, t, row) }
            else if addressed(*l, t) { side_sem(*l, t, row) } else { side_sem(*r, t, row) },
        Expr::Not(i) => !side_sem(*i, t, row),
    }
}

/// one unfolding of side_sem at a connective, as a broadcast fact (the solver does not unfold under the postcondition's quantifier by itself)
pub broadcast proof fn lemma_unfold_side(e: Expr, t: Seq<char>, row: Row)
    ensures #[trigger] side_sem(e, t, row) == (match e {
        Expr::And(l, r) =>
            if addressed(*l, t) && addressed(*r, t) { side_sem(*l, t, row) && side_sem(*r, t, row) }
            else if addressed(*l, t) { side_sem(*l, t, row) } else { side_sem(*r, t, row) },
        Expr::Or(l, r) =>
            if addressed(*l, t) && addressed(*r, t) { side_sem(*l, t, row) || side_sem(*r, t, row) }
            else if addressed(*l, t) { side_sem(*l, t, row) } else { side_sem(*r, t, row) },
        Expr::Not(i) => !side_sem(*i, t, row),
        _ => side_sem(e, t, row),
    })
{
}
pub proof fn lemma_foreign_leaf(f: String, op: CompareOp, v: Value, other: Expr, t: Seq<char>, row: Row)
    requires prefix_of(f@) is Some, prefix_of(f@)->Some_0.0 != t
    ensures
        !addressed(Expr::Compare { field: f, op, value: v }, t),
        !addressed(Expr::Not(Box::new(Expr::Compare { field: f, op, value: v })), t),
        addressed(Expr::And(Box::new(Expr::Compare { field: f, op, value: v }), Box::new(other)), t) == addressed(other, t),
        side_sem(Expr::And(Box::new(Expr::Compare { field: f, op, value: v }), Box::new(other)), t, row) == side_sem(other, t, row),
{
    reveal_with_fuel(addressed, 3);
    reveal_with_fuel(side_sem, 3);
}
pub proof fn lemma_own_leaf(f: String, g: String, op: CompareOp, v: Value, t: Seq<char>, row: Row)
    requires prefix_of(f@) is Some, prefix_of(f@)->Some_0.0 == t, prefix_of(g@) is None
    ensures
        addressed(Expr::Compare { field: f, op, value: v }, t),
        side_sem(Expr::Compare { field: f, op, value: v }, t, row) == cmp_val(prefix_of(f@)->Some_0.1, op, v, row),
        addressed(Expr::Compare { field: g, op, value: v }, t),
        side_sem(Expr::Compare { field: g, op, value: v }, t, row) == cmp_val(g@, op, v, row),
{
}

} // verus!
fn main() {}
