// GENERATED on every run by tools/verus_run.py from /repo and contracts/verus/c15_matcher.spec
use vstd::prelude::*;
verus! {


pub struct RowIndex {
    pub zone_idx: usize,
    pub row_idx: usize,
}
pub struct GroupedRowIndices {
    pub link_value: ScalarValue,
}
pub struct MatchedSequenceIndices {
    pub link_value: ScalarValue,
    pub matched_rows: Vec<(String, RowIndex)>,
}
pub enum SequenceLink {
    FollowedBy,
    PrecededBy,
}
pub struct EventTarget {
    pub event: String,
}
pub struct EventSequence {
    pub head: EventTarget,
    pub links: Vec<(SequenceLink, EventTarget)>,
}
pub struct SequenceMatcher {
    pub sequence: EventSequence,
    pub time_field: String,
}

impl SequenceMatcher {
    pub fn match_in_group(
        &self,
        group: &GroupedRowIndices,
        zones_by_event_type: &ZoneMap<String, Vec<CandidateZone>>,
    ) -> (r: Vec<MatchedSequenceIndices>)
     requires
         self.sequence.links@.len() >= 1 ==> sweep_pre(*self, *group, *zones_by_event_type, self.sequence.head.event@, self.sequence.links@[0].1.event@),
     ensures
         self.sequence.links@.len() == 1 && self.sequence.links@[0].0 is FollowedBy ==> fb_post(*self, *group, *zones_by_event_type, self.sequence.head.event@, self.sequence.links@[0].1.event@, r@), // OBL:C15.matcher.in_group.followed_by_runs_the_forward_sweep_on_head_then_target
         self.sequence.links@.len() == 1 && self.sequence.links@[0].0 is PrecededBy ==> pb_post(*self, *group, *zones_by_event_type, self.sequence.head.event@, self.sequence.links@[0].1.event@, r@), // OBL:C15.matcher.in_group.preceded_by_runs_the_backward_sweep_on_head_then_target
{
        // Handle single link (A FOLLOWED BY B or A PRECEDED BY B)
        if self.sequence.links.len() == 1 {
            let (link_type, target) = &self.sequence.links[0];
            let event_type_a = &self.sequence.head.event;
            let event_type_b = &target.event;

            if false {
                ();
            }

            match link_type {
                SequenceLink::FollowedBy => {
                    self.match_followed_by(group, event_type_a, event_type_b, zones_by_event_type)
                }
                SequenceLink::PrecededBy => {
                    self.match_preceded_by(group, event_type_a, event_type_b, zones_by_event_type)
                }
            }
        } else {
            // Multiple links - for now, return empty (Phase 4 feature)
            if false {
                ();
            }
            Vec::new()
        }
    }

    pub fn match_followed_by(
        &self,
        group: &GroupedRowIndices,
        event_type_a: &str,
        event_type_b: &str,
        zones_by_event_type: &ZoneMap<String, Vec<CandidateZone>>,
    ) -> (r: Vec<MatchedSequenceIndices>)
     requires
         rows(*group, event_type_a@).len() + rows(*group, event_type_b@).len() < usize::MAX,
         rows(*group, event_type_a@).len() > 0 && rows(*group, event_type_b@).len() > 0 ==> zones_of(*zones_by_event_type, event_type_a@) is Some && zones_of(*zones_by_event_type, event_type_b@) is Some,
         rows(*group, event_type_a@).len() > 0 && rows(*group, event_type_b@).len() > 0 ==> sorted_by_time(*self, zones_of(*zones_by_event_type, event_type_a@)->Some_0, rows(*group, event_type_a@)),
         rows(*group, event_type_a@).len() > 0 && rows(*group, event_type_b@).len() > 0 ==> sorted_by_time(*self, zones_of(*zones_by_event_type, event_type_b@)->Some_0, rows(*group, event_type_b@)),
     ensures
         forall|n: int| 0 <= n < r@.len() ==> fb_sound(*self, *group, *zones_by_event_type, event_type_a@, event_type_b@, #[trigger] r@[n]), // OBL:C15.matcher.followed_by.every_pair_is_linked_ordered_and_passes_where
         forall|i: int, j: int| fb_partner(*self, *group, *zones_by_event_type, event_type_a@, event_type_b@, i, j) ==> exists|n: int| 0 <= n < r@.len() && is_pair(#[trigger] r@[n], *group, event_type_a@, event_type_b@, i, j, true), // OBL:C15.matcher.followed_by.every_a_with_a_qualifying_nearest_b_is_matched
         r@.len() <= rows(*group, event_type_a@).len(), // OBL:C15.matcher.followed_by.at_most_one_pair_per_a
{
        let a_indices = rows_of(group, event_type_a);
        let b_indices = rows_of(group, event_type_b);

        if a_indices.is_empty() || b_indices.is_empty() {
            return Vec::new();
        }

        let zones_a = zones_by_event_type.get(event_type_a).unwrap();
        let zones_b = zones_by_event_type.get(event_type_b).unwrap();

        let mut results = Vec::new();
        let mut a_ptr = 0;
        let mut b_ptr = 0;
        let mut comparisons = 0usize;
        let mut timestamp_passed = 0usize;
        let mut where_failed = 0usize;
        let mut where_passed = 0usize;

        // Log group statistics
        if false {
            ();
        }

        // Two-pointer matching: advance both pointers through sorted indices
        while a_ptr < a_indices.len() && b_ptr < b_indices.len() 
         invariant
             a_indices@ == rows(*group, event_type_a@), b_indices@ == rows(*group, event_type_b@), a_indices@.len() + b_indices@.len() < usize::MAX,
             zones_of(*zones_by_event_type, event_type_a@) == Some(zones_a@), zones_of(*zones_by_event_type, event_type_b@) == Some(zones_b@),
             sorted_by_time(*self, zones_a@, a_indices@), sorted_by_time(*self, zones_b@, b_indices@),
             a_ptr <= a_indices@.len(), b_ptr <= b_indices@.len(),
             results@.len() <= a_ptr, // OBL:C15.matcher.followed_by.at_most_one_pair_per_a
             comparisons <= a_ptr + b_ptr, timestamp_passed <= a_ptr, where_passed <= a_ptr, where_failed <= a_ptr,
             forall|i: int, j: int| a_ptr <= i < a_indices@.len() && 0 <= j < b_ptr ==> ts_of(*self, zones_b@, #[trigger] b_indices@[j]) < ts_of(*self, zones_a@, #[trigger] a_indices@[i]), // OBL:C15.matcher.followed_by.every_a_with_a_qualifying_nearest_b_is_matched
             forall|n: int| 0 <= n < results@.len() ==> fb_sound(*self, *group, *zones_by_event_type, event_type_a@, event_type_b@, #[trigger] results@[n]), // OBL:C15.matcher.followed_by.every_pair_is_linked_ordered_and_passes_where
             forall|i: int, j: int| i < a_ptr && fb_partner(*self, *group, *zones_by_event_type, event_type_a@, event_type_b@, i, j) ==> exists|n: int| 0 <= n < results@.len() && is_pair(#[trigger] results@[n], *group, event_type_a@, event_type_b@, i, j, true), // OBL:C15.matcher.followed_by.every_a_with_a_qualifying_nearest_b_is_matched
         decreases (a_indices@.len() - a_ptr) + (b_indices@.len() - b_ptr),
{
             let ghost res0 = results@;
             let ghost ap0 = a_ptr as int;
             let ghost bp0 = b_ptr as int;

            comparisons += 1;
            let row_a = &a_indices[a_ptr];
            let row_b = &b_indices[b_ptr];

            let ts_a = self.get_timestamp(zones_a, row_a);
            let ts_b = self.get_timestamp(zones_b, row_b);

            if false && comparisons <= 20 {
                ();
            }

            if ts_b >= ts_a {
                timestamp_passed += 1;
                // Match found: event B follows event A (or happens at the same time)
                // Apply WHERE clause filtering if present
                let passes_where = self.matches_where_clause(
                    event_type_a,
                    zones_a,
                    row_a,
                    event_type_b,
                    zones_b,
                    row_b,
                );

                if false && timestamp_passed <= 20 {
                    ();
                }

                if passes_where {
                    where_passed += 1;
                    if false {
                        ();
                    }
                    results.push(MatchedSequenceIndices {
                        link_value: group.link_value.clone(),
                        matched_rows: vec![
                            (event_type_a.to_string(), row_a.clone()),
                            (event_type_b.to_string(), row_b.clone()),
                        ],
                    });
                } else {
                    where_failed += 1;
                    if false && where_failed <= 20 {
                        ();
                    }
                }
                a_ptr += 1;
            } else {
                // Event B is not after event A, advance b_ptr
                b_ptr += 1;
            }
        
             proof {
                 assert(forall|n: int| 0 <= n < res0.len() ==> results@[n] == res0[n]);
                 if results@.len() > res0.len() {
                     assert(is_pair(results@[res0.len() as int], *group, event_type_a@, event_type_b@, ap0, bp0, true));
                 }
                 if a_ptr as int == ap0 + 1 {
                     assert forall|i: int, j: int| i < a_ptr && fb_partner(*self, *group, *zones_by_event_type, event_type_a@, event_type_b@, i, j) implies exists|n: int| 0 <= n < results@.len() && is_pair(#[trigger] results@[n], *group, event_type_a@, event_type_b@, i, j, true) by {
                         if i < ap0 {
                             let n0 = choose|n: int| 0 <= n < res0.len() && is_pair(#[trigger] res0[n], *group, event_type_a@, event_type_b@, i, j, true);
                             assert(is_pair(results@[n0], *group, event_type_a@, event_type_b@, i, j, true));
                         } else {
                             assert(i == ap0);
                             if j < bp0 { assert(ts_of(*self, zones_b@, b_indices@[j]) < ts_of(*self, zones_a@, a_indices@[i])); }
                             if j > bp0 { assert(ts_of(*self, zones_b@, b_indices@[bp0]) < ts_of(*self, zones_a@, a_indices@[i])); }
                             assert(j == bp0);
                             assert(is_pair(results@[res0.len() as int], *group, event_type_a@, event_type_b@, i, j, true));
                         }
                     }
                 } else {
                     assert forall|i: int, j: int| a_ptr <= i < a_indices@.len() && 0 <= j < b_ptr implies ts_of(*self, zones_b@, #[trigger] b_indices@[j]) < ts_of(*self, zones_a@, #[trigger] a_indices@[i]) by {
                         if j == bp0 { assert(ts_of(*self, zones_a@, a_indices@[ap0]) <= ts_of(*self, zones_a@, a_indices@[i])); }
                     }
                 }
             }
}

        if false {
            ();
        }

        results
    }

    pub fn match_preceded_by(
        &self,
        group: &GroupedRowIndices,
        event_type_a: &str,
        event_type_b: &str,
        zones_by_event_type: &ZoneMap<String, Vec<CandidateZone>>,
    ) -> (r: Vec<MatchedSequenceIndices>)
     requires
         rows(*group, event_type_a@).len() + rows(*group, event_type_b@).len() < usize::MAX,
         rows(*group, event_type_a@).len() > 0 && rows(*group, event_type_b@).len() > 0 ==> zones_of(*zones_by_event_type, event_type_a@) is Some && zones_of(*zones_by_event_type, event_type_b@) is Some,
         rows(*group, event_type_a@).len() > 0 && rows(*group, event_type_b@).len() > 0 ==> sorted_by_time(*self, zones_of(*zones_by_event_type, event_type_a@)->Some_0, rows(*group, event_type_a@)),
         rows(*group, event_type_a@).len() > 0 && rows(*group, event_type_b@).len() > 0 ==> sorted_by_time(*self, zones_of(*zones_by_event_type, event_type_b@)->Some_0, rows(*group, event_type_b@)),
     ensures
         forall|n: int| 0 <= n < r@.len() ==> pb_sound(*self, *group, *zones_by_event_type, event_type_a@, event_type_b@, #[trigger] r@[n]), // OBL:C15.matcher.preceded_by.every_pair_is_linked_strictly_ordered_and_passes_where
         forall|i: int, j: int| pb_partner(*self, *group, *zones_by_event_type, event_type_a@, event_type_b@, i, j) ==> exists|n: int| 0 <= n < r@.len() && is_pair(#[trigger] r@[n], *group, event_type_a@, event_type_b@, i, j, false), // OBL:C15.matcher.preceded_by.every_a_with_a_qualifying_latest_earlier_b_is_matched
         r@.len() <= rows(*group, event_type_a@).len(), // OBL:C15.matcher.preceded_by.at_most_one_pair_per_a
{
        let a_indices = rows_of(group, event_type_a);
        let b_indices = rows_of(group, event_type_b);

        if a_indices.is_empty() || b_indices.is_empty() {
            return Vec::new();
        }

        let zones_a = zones_by_event_type.get(event_type_a).unwrap();
        let zones_b = zones_by_event_type.get(event_type_b).unwrap();

        if false {
            ();
        }

        let mut results = Vec::new();
        let mut a_ptr = 0;
        let mut b_ptr = 0;
        let mut comparisons = 0usize;

        // Two-pointer matching: for each event A, find the latest event B that precedes it
        // We iterate through A events and for each, find the most recent B that happened before it
        while a_ptr < a_indices.len() && b_ptr < b_indices.len() 
         invariant
             a_indices@ == rows(*group, event_type_a@), b_indices@ == rows(*group, event_type_b@), a_indices@.len() + b_indices@.len() < usize::MAX,
             zones_of(*zones_by_event_type, event_type_a@) == Some(zones_a@), zones_of(*zones_by_event_type, event_type_b@) == Some(zones_b@),
             sorted_by_time(*self, zones_a@, a_indices@), sorted_by_time(*self, zones_b@, b_indices@),
             a_ptr <= a_indices@.len(), b_ptr <= b_indices@.len(), comparisons <= a_ptr + b_ptr,
             results@.len() <= a_ptr, // OBL:C15.matcher.preceded_by.at_most_one_pair_per_a
             b_ptr == 0 || (b_ptr < b_indices@.len() && forall|i: int| a_ptr <= i < a_indices@.len() ==> ts_of(*self, zones_b@, b_indices@[b_ptr as int]) < ts_of(*self, zones_a@, #[trigger] a_indices@[i])), // OBL:C15.matcher.preceded_by.every_a_with_a_qualifying_latest_earlier_b_is_matched
             forall|n: int| 0 <= n < results@.len() ==> pb_sound(*self, *group, *zones_by_event_type, event_type_a@, event_type_b@, #[trigger] results@[n]), // OBL:C15.matcher.preceded_by.every_pair_is_linked_strictly_ordered_and_passes_where
             forall|i: int, j: int| i < a_ptr && pb_partner(*self, *group, *zones_by_event_type, event_type_a@, event_type_b@, i, j) ==> exists|n: int| 0 <= n < results@.len() && is_pair(#[trigger] results@[n], *group, event_type_a@, event_type_b@, i, j, false), // OBL:C15.matcher.preceded_by.every_a_with_a_qualifying_latest_earlier_b_is_matched
         decreases (a_indices@.len() - a_ptr),
{
             let ghost res0 = results@;
             let ghost ap0 = a_ptr as int;
             let ghost bp0 = b_ptr as int;

            comparisons += 1;
            let row_a = &a_indices[a_ptr];
            let row_b = &b_indices[b_ptr];

            let ts_a = self.get_timestamp(zones_a, row_a);
            let ts_b = self.get_timestamp(zones_b, row_b);

            if false {
                ();
            }

            if ts_b < ts_a {
                // Found a B that precedes A - advance b_ptr to find the latest one
                // Keep advancing b_ptr while B still precedes A (two-pointer optimization)
                let mut latest_b_ptr = b_ptr;
                while latest_b_ptr + 1 < b_indices.len() 
                 invariant
                     b_indices@ == rows(*group, event_type_b@), b_ptr <= latest_b_ptr < b_indices@.len(),
                     ts_a == ts_of(*self, zones_a@, *row_a),
                     ts_of(*self, zones_b@, b_indices@[latest_b_ptr as int]) < ts_a,
                 ensures
                     latest_b_ptr + 1 >= b_indices@.len() || ts_of(*self, zones_b@, b_indices@[latest_b_ptr + 1]) >= ts_a,
                 decreases b_indices@.len() - latest_b_ptr,
{
                    let next_b = &b_indices[latest_b_ptr + 1];
                    let ts_next_b = self.get_timestamp(zones_b, next_b);
                    if ts_next_b < ts_a {
                        latest_b_ptr += 1;
                    } else {
                        break;
                    }
                }

                // Use the latest B that precedes A
                let latest_row_b = &b_indices[latest_b_ptr];

                // Apply WHERE clause filtering if present
                let passes_where = self.matches_where_clause(
                    event_type_b,
                    zones_b,
                    latest_row_b,
                    event_type_a,
                    zones_a,
                    row_a,
                );

                if false {
                    ();
                }

                if passes_where {
                    results.push(MatchedSequenceIndices {
                        link_value: group.link_value.clone(),
                        matched_rows: vec![
                            (event_type_b.to_string(), latest_row_b.clone()),
                            (event_type_a.to_string(), row_a.clone()),
                        ],
                    });
                } else if false {
                    ();
                }

                // Move to next A event
                a_ptr += 1;
                // Optimize: Since indices are sorted, keep b_ptr at latest_b_ptr for next iteration
                // This maintains the two-pointer invariant (b_ptr points to the last B that could match)
                b_ptr = latest_b_ptr;
            } else {
                // B is not before A (ts_b >= ts_a). Indices are sorted by timestamp, so no B
                // precedes this A; a later A may still be preceded by this B, so advance a_ptr
                a_ptr += 1;
            }
        
             proof {
                 assert(forall|n: int| 0 <= n < res0.len() ==> results@[n] == res0[n]);
                 assert(a_ptr as int == ap0 + 1);
                 if results@.len() > res0.len() {
                     assert(is_pair(results@[res0.len() as int], *group, event_type_a@, event_type_b@, ap0, b_ptr as int, false));
                 }
                 assert forall|i: int, j: int| i < a_ptr && pb_partner(*self, *group, *zones_by_event_type, event_type_a@, event_type_b@, i, j) implies exists|n: int| 0 <= n < results@.len() && is_pair(#[trigger] results@[n], *group, event_type_a@, event_type_b@, i, j, false) by {
                     if i < ap0 {
                         let n0 = choose|n: int| 0 <= n < res0.len() && is_pair(#[trigger] res0[n], *group, event_type_a@, event_type_b@, i, j, false);
                         assert(is_pair(results@[n0], *group, event_type_a@, event_type_b@, i, j, false));
                     } else {
                         assert(i == ap0);
                         let lj = b_ptr as int;
                         assert(ts_of(*self, zones_b@, b_indices@[j]) < ts_of(*self, zones_a@, a_indices@[i]));
                         if ts_of(*self, zones_b@, b_indices@[bp0]) < ts_of(*self, zones_a@, a_indices@[ap0]) {
                             if j < lj { assert(ts_of(*self, zones_b@, b_indices@[lj]) < ts_of(*self, zones_a@, a_indices@[i])); }
                             if j > lj { assert(ts_of(*self, zones_b@, b_indices@[lj + 1]) <= ts_of(*self, zones_b@, b_indices@[j])); }
                             assert(j == lj);
                             assert(is_pair(results@[res0.len() as int], *group, event_type_a@, event_type_b@, i, j, false));
                         } else {
                             assert(bp0 == 0);
                             assert(ts_of(*self, zones_b@, b_indices@[0]) <= ts_of(*self, zones_b@, b_indices@[j]));
                             assert(false);
                         }
                     }
                 }
             }
}

        if false {
            ();
        }

        results
    }

}

// ---- spec functions and lemmas from the contract file ----
// ---- TRUSTED declarations (bodies not verified): candidate zones and scalar values are opaque; the two methods the sweeps call,
// ---- get_timestamp and matches_where_clause, are seen through uninterpreted functions of their arguments (whatever they compute,
// ---- they compute the same for the same row); the per-type row list of a group is `rows` (E6 stands for the `.get().map().unwrap_or()` chain)
#[verifier::external_body]
pub struct CandidateZone { _p: core::marker::PhantomData<()> }
#[verifier::external_body]
pub struct ScalarValue { _p: core::marker::PhantomData<()> }
#[verifier::external_body]
#[verifier::reject_recursive_types(K)]
#[verifier::reject_recursive_types(V)]
pub struct ZoneMap<K, V> { _p: core::marker::PhantomData<(K, V)> }
pub type Zones = ZoneMap<String, Vec<CandidateZone>>;
impl Clone for ScalarValue {
    #[verifier::external_body]
    fn clone(&self) -> (r: Self) ensures r == *self { unimplemented!() }
}
impl Clone for RowIndex {
    #[verifier::external_body]
    fn clone(&self) -> (r: Self) ensures r == *self { unimplemented!() }
}
pub uninterp spec fn rows(g: GroupedRowIndices, event_type: Seq<char>) -> Seq<RowIndex>;
pub uninterp spec fn zones_of(m: Zones, event_type: Seq<char>) -> Option<Seq<CandidateZone>>;
pub uninterp spec fn ts_of(m: SequenceMatcher, zones: Seq<CandidateZone>, row: RowIndex) -> i64;
pub uninterp spec fn where_ok(m: SequenceMatcher, type1: Seq<char>, zones1: Seq<CandidateZone>, row1: RowIndex, type2: Seq<char>, zones2: Seq<CandidateZone>, row2: RowIndex) -> bool;

/// E6: stands for `group.rows_by_type.get(event_type).map(|v| v.as_slice()).unwrap_or(&[])`
#[verifier::external_body]
pub fn rows_of<'a>(group: &'a GroupedRowIndices, event_type: &str) -> (r: &'a [RowIndex])
    ensures r@ == rows(*group, event_type@)
{ unimplemented!() }
impl ZoneMap<String, Vec<CandidateZone>> {
    #[verifier::external_body]
    pub fn get(&self, k: &str) -> (r: Option<&Vec<CandidateZone>>)
        ensures r is Some == zones_of(*self, k@) is Some, r is Some ==> r->Some_0@ == zones_of(*self, k@)->Some_0
    { unimplemented!() }
}
impl SequenceMatcher {
    #[verifier::external_body]
    pub fn get_timestamp(&self, zones: &[CandidateZone], row_index: &RowIndex) -> (r: i64)
        ensures r == ts_of(*self, zones@, *row_index)
    { unimplemented!() }
    #[verifier::external_body]
    pub fn matches_where_clause(&self, event_type_a: &str, zones_a: &[CandidateZone], row_a: &RowIndex, event_type_b: &str, zones_b: &[CandidateZone], row_b: &RowIndex) -> (r: bool)
        ensures r == where_ok(*self, event_type_a@, zones_a@, *row_a, event_type_b@, zones_b@, *row_b)
    { unimplemented!() }
}

/// the rows of one event type inside a link group are in non-decreasing order of the time field (established by
/// ColumnarGrouper::sort_groups_by_timestamp, which is NOT verified here: precondition of both sweeps)
pub open spec fn sorted_by_time(m: SequenceMatcher, zones: Seq<CandidateZone>, rs: Seq<RowIndex>) -> bool {
    forall|i: int, j: int| 0 <= i <= j < rs.len() ==> ts_of(m, zones, #[trigger] rs[i]) <= ts_of(m, zones, #[trigger] rs[j])
}
/// result entry p is the pair (i-th a-row, j-th b-row) of this group, a first (`a_first`) or b first
pub open spec fn is_pair(p: MatchedSequenceIndices, g: GroupedRowIndices, ta: Seq<char>, tb: Seq<char>, i: int, j: int, a_first: bool) -> bool {
    &&& 0 <= i < rows(g, ta).len() && 0 <= j < rows(g, tb).len()
    &&& p.link_value == g.link_value
    &&& p.matched_rows@.len() == 2
    &&& p.matched_rows@[if a_first { 0int } else { 1int }].0@ == ta && p.matched_rows@[if a_first { 0int } else { 1int }].1 == rows(g, ta)[i]
    &&& p.matched_rows@[if a_first { 1int } else { 0int }].0@ == tb && p.matched_rows@[if a_first { 1int } else { 0int }].1 == rows(g, tb)[j]
}
/// FOLLOWED BY: b at the same time or later, and the WHERE conditions hold for the pair
pub open spec fn fb_sound(m: SequenceMatcher, g: GroupedRowIndices, zm: Zones, ta: Seq<char>, tb: Seq<char>, p: MatchedSequenceIndices) -> bool {
    exists|i: int, j: int| #[trigger] is_pair(p, g, ta, tb, i, j, true)
        && ts_of(m, zones_of(zm, tb)->Some_0, rows(g, tb)[j]) >= ts_of(m, zones_of(zm, ta)->Some_0, rows(g, ta)[i])
        && where_ok(m, ta, zones_of(zm, ta)->Some_0, rows(g, ta)[i], tb, zones_of(zm, tb)->Some_0, rows(g, tb)[j])
}
/// j is the NEAREST b-row at or after a-row i, and the pair passes WHERE
pub open spec fn fb_partner(m: SequenceMatcher, g: GroupedRowIndices, zm: Zones, ta: Seq<char>, tb: Seq<char>, i: int, j: int) -> bool {
    &&& 0 <= i < rows(g, ta).len() && 0 <= j < rows(g, tb).len()
    &&& zones_of(zm, ta) is Some && zones_of(zm, tb) is Some
    &&& ts_of(m, zones_of(zm, tb)->Some_0, rows(g, tb)[j]) >= ts_of(m, zones_of(zm, ta)->Some_0, rows(g, ta)[i])
    &&& forall|k: int| 0 <= k < j ==> ts_of(m, zones_of(zm, tb)->Some_0, #[trigger] rows(g, tb)[k]) < ts_of(m, zones_of(zm, ta)->Some_0, rows(g, ta)[i])
    &&& where_ok(m, ta, zones_of(zm, ta)->Some_0, rows(g, ta)[i], tb, zones_of(zm, tb)->Some_0, rows(g, tb)[j])
}
/// PRECEDED BY: b strictly earlier, and the WHERE conditions hold for the pair (b is the first argument of the WHERE check)
pub open spec fn pb_sound(m: SequenceMatcher, g: GroupedRowIndices, zm: Zones, ta: Seq<char>, tb: Seq<char>, p: MatchedSequenceIndices) -> bool {
    exists|i: int, j: int| #[trigger] is_pair(p, g, ta, tb, i, j, false)
        && ts_of(m, zones_of(zm, tb)->Some_0, rows(g, tb)[j]) < ts_of(m, zones_of(zm, ta)->Some_0, rows(g, ta)[i])
        && where_ok(m, tb, zones_of(zm, tb)->Some_0, rows(g, tb)[j], ta, zones_of(zm, ta)->Some_0, rows(g, ta)[i])
}
/// j is the LATEST b-row strictly before a-row i, and the pair passes WHERE
pub open spec fn pb_partner(m: SequenceMatcher, g: GroupedRowIndices, zm: Zones, ta: Seq<char>, tb: Seq<char>, i: int, j: int) -> bool {
    &&& 0 <= i < rows(g, ta).len() && 0 <= j < rows(g, tb).len()
    &&& zones_of(zm, ta) is Some && zones_of(zm, tb) is Some
    &&& ts_of(m, zones_of(zm, tb)->Some_0, rows(g, tb)[j]) < ts_of(m, zones_of(zm, ta)->Some_0, rows(g, ta)[i])
    &&& forall|k: int| j < k < rows(g, tb).len() ==> ts_of(m, zones_of(zm, tb)->Some_0, #[trigger] rows(g, tb)[k]) >= ts_of(m, zones_of(zm, ta)->Some_0, rows(g, ta)[i])
    &&& where_ok(m, tb, zones_of(zm, tb)->Some_0, rows(g, tb)[j], ta, zones_of(zm, ta)->Some_0, rows(g, ta)[i])
}

/// what both sweeps need (see sorted_by_time)
pub open spec fn sweep_pre(m: SequenceMatcher, g: GroupedRowIndices, zm: Zones, ta: Seq<char>, tb: Seq<char>) -> bool {
    &&& rows(g, ta).len() + rows(g, tb).len() < usize::MAX
    &&& rows(g, ta).len() > 0 && rows(g, tb).len() > 0 ==> zones_of(zm, ta) is Some && zones_of(zm, tb) is Some
    &&& rows(g, ta).len() > 0 && rows(g, tb).len() > 0 ==> sorted_by_time(m, zones_of(zm, ta)->Some_0, rows(g, ta))
    &&& rows(g, ta).len() > 0 && rows(g, tb).len() > 0 ==> sorted_by_time(m, zones_of(zm, tb)->Some_0, rows(g, tb))
}
/// the three clauses of match_followed_by's contract, as one predicate (used by the dispatching caller)
pub open spec fn fb_post(m: SequenceMatcher, g: GroupedRowIndices, zm: Zones, ta: Seq<char>, tb: Seq<char>, r: Seq<MatchedSequenceIndices>) -> bool {
    &&& forall|n: int| 0 <= n < r.len() ==> fb_sound(m, g, zm, ta, tb, #[trigger] r[n])
    &&& forall|i: int, j: int| fb_partner(m, g, zm, ta, tb, i, j) ==> exists|n: int| 0 <= n < r.len() && is_pair(#[trigger] r[n], g, ta, tb, i, j, true)
    &&& r.len() <= rows(g, ta).len()
}
pub open spec fn pb_post(m: SequenceMatcher, g: GroupedRowIndices, zm: Zones, ta: Seq<char>, tb: Seq<char>, r: Seq<MatchedSequenceIndices>) -> bool {
    &&& forall|n: int| 0 <= n < r.len() ==> pb_sound(m, g, zm, ta, tb, #[trigger] r[n])
    &&& forall|i: int, j: int| pb_partner(m, g, zm, ta, tb, i, j) ==> exists|n: int| 0 <= n < r.len() && is_pair(#[trigger] r[n], g, ta, tb, i, j, false)
    &&& r.len() <= rows(g, ta).len()
}

} // verus!
fn main() {}
