// GENERATED on every run by tools/verus_run.py from /repo and contracts/verus/c04_memtable_insert.spec
use vstd::prelude::*;
verus! {


pub struct Event {
    pub event_type: String,
    pub context_id: String,
    pub timestamp: u64,
    pub id: EventId,
    pub payload: BTreeMap<String, ScalarValue>,
}
pub struct MemTable {
    pub events: BTreeMap<String, Vec<Event>>,
    pub capacity: usize,
    pub count: usize,
}

impl MemTable {
    pub fn insert_internal(&mut self, event: Event)
     requires old(self).count < usize::MAX
     ensures
         bucket(mview(final(self).events), event.context_id@) == bucket(mview(old(self).events), event.context_id@).push(event), // OBL:C04.memtable.insert_internal.appended_at_the_end_of_its_context_bucket
         forall|c: Seq<char>| c != event.context_id@ ==> bucket(mview(final(self).events), c) == bucket(mview(old(self).events), c), // OBL:C04.memtable.insert_internal.other_contexts_untouched
         final(self).count == old(self).count + 1, // OBL:C04.memtable.insert_internal.count_advances_by_one
{
        self.events
            .entry(event.context_id.clone())
            .or_default()
            .push(event);
        self.count += 1;
    }

}

// ---- spec functions and lemmas from the contract file ----
// ---- TRUSTED declarations: std's BTreeMap<String, Vec<Event>> seen through `mview`, its entry(..).or_default() borrow
// ---- specified with a prophecy (the map when the borrow ends), the payload map and EventId opaque.
#[verifier::external_body]
#[verifier::reject_recursive_types(K)]
#[verifier::reject_recursive_types(V)]
pub struct BTreeMap<K, V> { _p: core::marker::PhantomData<(K, V)> }
#[verifier::external_body]
#[verifier::reject_recursive_types(K)]
#[verifier::reject_recursive_types(V)]
pub struct Entry<'a, K, V> { _p: core::marker::PhantomData<&'a mut (K, V)> }
#[verifier::external_body]
pub struct ScalarValue { _p: core::marker::PhantomData<()> }
pub struct EventId(pub u64);
pub uninterp spec fn mview<V>(m: BTreeMap<String, V>) -> Map<Seq<char>, V>;
pub uninterp spec fn e_key<V>(e: Entry<String, V>) -> Seq<char>;
pub uninterp spec fn e_before<V>(e: Entry<String, V>) -> Map<Seq<char>, V>;
pub uninterp spec fn e_after<V>(e: Entry<String, V>) -> Map<Seq<char>, V>;
impl<V> BTreeMap<String, V> {
    #[verifier::external_body]
    pub fn entry(&mut self, k: String) -> (e: Entry<'_, String, V>)
        ensures e_key(e) == k@, e_before(e) == mview(*old(self)), e_after(e) == mview(*final(self)),
    { unimplemented!() }
}
impl<'a> Entry<'a, String, Vec<Event>> {
    #[verifier::external_body]
    pub fn or_default(self) -> (r: &'a mut Vec<Event>)
        ensures r@ == (if e_before(self).contains_key(e_key(self)) { e_before(self)[e_key(self)]@ } else { Seq::<Event>::empty() }),
                e_after(self) == e_before(self).insert(e_key(self), *final(r)),
    { unimplemented!() }
}
pub open spec fn bucket(m: Map<Seq<char>, Vec<Event>>, ctx: Seq<char>) -> Seq<Event> {
    if m.contains_key(ctx) { m[ctx]@ } else { Seq::<Event>::empty() }
}

pub fn two_inserts(t: &mut MemTable, a: Event, x: Event, b: Event)
    requires a.context_id@ == b.context_id@, x.context_id@ != a.context_id@, old(t).count < usize::MAX - 3
    ensures bucket(mview(final(t).events), a.context_id@) == bucket(mview(old(t).events), a.context_id@).push(a).push(b)
{
    t.insert_internal(a);
    t.insert_internal(x);
    t.insert_internal(b);
}

} // verus!
fn main() {}
