// GENERATED on every run by tools/verus_run.py from /repo and contracts/verus/c14_sink_mark.spec
use vstd::prelude::*;
verus! {


pub struct MaterializedSink {
    pub store: MaterializedStore,
    pub schema_guard: SchemaGuard,
    pub high_water: HighWaterMark,
    pub total_rows: u64,
    pub total_bytes: u64,
    pub last_rows_appended: u64,
    pub last_bytes_appended: u64,
}

impl MaterializedSink {
    pub fn append(&mut self, batch: &ColumnBatch) -> (r: Result<(), MaterializationError>)
     ensures !lex_gt(old(self).high_water, final(self).high_water), // OBL:C14.sink_mark.append.mark_never_regresses
             r is Err ==> final(self).high_water == old(self).high_water, // OBL:C14.sink_mark.append.failed_append_keeps_mark
{
        if batch.is_empty() {
            return Ok(());
        }

        self.schema_guard.expect_batch(batch.schema())?;

        let meta = self
            .store
            .append_batch(self.schema_guard.snapshots(), batch)?;
        // Delta batches are a union of shard streams and may arrive out of order: the mark only ever advances.
        self.high_water
            .advance(meta.high_water_mark.timestamp, meta.high_water_mark.event_id);
        let rows_added = meta.row_count as u64;
        let bytes_added = meta.compressed_len as u64;
        self.total_rows = self.total_rows.saturating_add(rows_added);
        self.total_bytes = self.total_bytes.saturating_add(bytes_added);
        self.last_rows_appended = rows_added;
        self.last_bytes_appended = bytes_added;
        Ok(())
    }

    pub fn bootstrap_from_manifest(&mut self)
     ensures
         !lex_gt(old(self).high_water, final(self).high_water), // OBL:C14.sink_mark.bootstrap.mark_not_below_the_initial_mark
         forall|i: int| 0 <= i < store_frames(old(self).store).len() ==> !lex_gt((#[trigger] store_frames(old(self).store)[i]).high_water_mark, final(self).high_water), // OBL:C14.sink_mark.bootstrap.mark_not_below_any_stored_frame
         final(self).high_water == old(self).high_water || exists|i: int| 0 <= i < store_frames(old(self).store).len() && (#[trigger] store_frames(old(self).store)[i]).high_water_mark == final(self).high_water, // OBL:C14.sink_mark.bootstrap.mark_is_one_of_them
{
        // The mark is the maximum over all stored frames, not the last frame's (frames are not ordered by mark).
        let mut mark = self.high_water;
        for frame in it: self.store.frames() 
         invariant
             it.history@.len() == it.index@, forall|j: int| 0 <= j < it.index@ ==> *(#[trigger] it.history@[j]) == store_frames(self.store)[j],
             self.store == old(self).store, self.high_water == old(self).high_water,
             !lex_gt(old(self).high_water, mark),
             forall|i: int| 0 <= i < it.index@ ==> !lex_gt((#[trigger] store_frames(self.store)[i]).high_water_mark, mark),
             mark == old(self).high_water || exists|i: int| 0 <= i < it.index@ && (#[trigger] store_frames(self.store)[i]).high_water_mark == mark,
{
             assert(*frame == store_frames(self.store)[it.index@]);

            mark.advance(frame.high_water_mark.timestamp, frame.high_water_mark.event_id);
        }
        self.high_water = mark;

        self.recompute_totals();
        self.last_rows_appended = 0;
        self.last_bytes_appended = 0;
    }

}

// ---- spec functions and lemmas from the contract file ----
// ---- everything the real method calls is external here: the store (file system), the schema guard, the batch.
// ---- Their bodies are NOT verified; only the shape of their results is used (trusted declarations, listed).
#[verifier::external_body]
pub struct MaterializedStore { _p: core::marker::PhantomData<()> }
#[verifier::external_body]
pub struct SchemaGuard { _p: core::marker::PhantomData<()> }
#[verifier::external_body]
pub struct ColumnBatch { _p: core::marker::PhantomData<()> }
#[verifier::external_body]
pub struct BatchSchema { _p: core::marker::PhantomData<()> }
#[verifier::external_body]
pub struct SchemaSnapshot { _p: core::marker::PhantomData<()> }
#[verifier::external_body]
pub struct MaterializationError { _p: core::marker::PhantomData<()> }

#[derive(Clone, Copy)]
pub struct HighWaterMark { pub timestamp: u64, pub event_id: u64 }
pub struct StoredFrameMeta { pub high_water_mark: HighWaterMark, pub row_count: u32, pub compressed_len: u32, pub schema_hash: u64 }
pub uninterp spec fn store_frames(s: MaterializedStore) -> Seq<StoredFrameMeta>;

pub open spec fn lex_gt(a: HighWaterMark, b: HighWaterMark) -> bool {
    a.timestamp > b.timestamp || (a.timestamp == b.timestamp && a.event_id > b.event_id)
}

impl HighWaterMark {
    /// contract of the real HighWaterMark::advance, proved by Kani (C14.high_water.advance.lexicographic_max)
    #[verifier::external_body]
    pub fn advance(&mut self, timestamp: u64, event_id: u64)
        ensures *final(self) == (if lex_gt(HighWaterMark { timestamp, event_id }, *old(self)) { HighWaterMark { timestamp, event_id } } else { *old(self) })
    { unimplemented!() }
}
impl ColumnBatch {
    #[verifier::external_body]
    pub fn is_empty(&self) -> bool { unimplemented!() }
    #[verifier::external_body]
    pub fn schema(&self) -> &BatchSchema { unimplemented!() }
}
impl SchemaGuard {
    #[verifier::external_body]
    pub fn expect_batch(&self, schema: &BatchSchema) -> Result<(), MaterializationError> { unimplemented!() }
    #[verifier::external_body]
    pub fn snapshots(&self) -> &[SchemaSnapshot] { unimplemented!() }
}
impl MaterializedStore {
    #[verifier::external_body]
    pub fn frames(&self) -> (r: &[StoredFrameMeta]) ensures r@ == store_frames(*self) { unimplemented!() }
    #[verifier::external_body]
    pub fn append_batch(&mut self, schema: &[SchemaSnapshot], batch: &ColumnBatch) -> Result<StoredFrameMeta, MaterializationError> { unimplemented!() }
}

impl MaterializedSink {
    /// totals are bookkeeping, not part of the mark: external here
    #[verifier::external_body]
    pub fn recompute_totals(&mut self)
        ensures final(self).high_water == old(self).high_water, final(self).store == old(self).store
    { unimplemented!() }
}
pub proof fn lemma_advance_is_lex_max(m: HighWaterMark, t: u64, e: u64)
    ensures ({
        let n = HighWaterMark { timestamp: t, event_id: e };
        let r = if lex_gt(n, m) { n } else { m };
        !lex_gt(m, r) && !lex_gt(n, r) && (r == m || r == n)
    })
{
}

} // verus!
fn main() {}
