// GENERATED on every run by tools/verus_run.py from /repo and contracts/verus/c06_validate_payload.spec
use vstd::prelude::*;
verus! {


pub enum FieldType {
    String,
    U64,
    I64,
    F64,
    Bool,
    Timestamp,
    Date,
    Optional(Box<FieldType>),
    Enum(EnumType),
}
pub struct MiniSchema {
    pub fields: HashMap<String, FieldType>,
}

pub fn validate_payload(payload: &Value, schema: &MiniSchema) -> (r: Result<(), String>)
     ensures
         r is Ok ==> as_obj(payload) is Some,                                                            // OBL:C06.validate_payload.accepted_payload_is_an_object
         r is Ok ==> all_fields_ok(as_obj(payload)->Some_0, entries(&schema.fields)),                    // OBL:C06.validate_payload.accepted_payload_has_every_field_well_typed_or_optional_absent
         r is Ok ==> no_extra_keys(as_obj(payload)->Some_0, entries(&schema.fields)),                    // OBL:C06.validate_payload.accepted_payload_has_no_undeclared_key
         conforms(payload, entries(&schema.fields)) ==> r is Ok,                                         // OBL:C06.validate_payload.conforming_payload_is_accepted
{
    let obj = as_object_or_err(payload)?;

    for (field, field_type) in it: &schema.fields 
         invariant forall|i: int| 0 <= i < it.index@ ==> field_ok(obj, #[trigger] entries(&schema.fields)[i]),
                   it.history@ =~= entries(&schema.fields).take(it.index@),
                   as_obj(payload) == Some(obj),
{
        match obj.get(field) {
            Some(value) => {
                if !type_allows_value(field_type, value) {
                    return Err(__fmt());
                }
            }
            None => {
                if !matches!(field_type, FieldType::Optional(_)) {
                    return Err(__fmt());
                }
            }
        }
    }

    let allowed_keys: HashSet<_> = schema_keyset(&schema.fields);
    let actual_keys: HashSet<_> = obj_keyset(obj);

    let extra_keys: Vec<_> = set_difference(&actual_keys, &allowed_keys);
    if !extra_keys.is_empty() {
        return Err(__fmt());
    }

    Ok(())
}

// ---- spec functions and lemmas from the contract file ----
// ---- TRUSTED declarations: the schema's HashMap with its iteration, the JSON value / object of serde_json, the
// ---- key sets. `entries(m)` is the (unordered, duplicate-free by key) listing the iterator yields; the per-type
// ---- check `type_allows_value` is external here with an uninterpreted result (its table is Kani unit c06_type_table).
#[verifier::external_body]
pub struct EnumType { _p: core::marker::PhantomData<()> }
#[verifier::external_body]
#[verifier::reject_recursive_types(K)]
#[verifier::reject_recursive_types(V)]
pub struct HashMap<K, V> { _p: core::marker::PhantomData<(K, V)> }
#[verifier::external_body]
#[verifier::reject_recursive_types(T)]
pub struct HashSet<T> { _p: core::marker::PhantomData<T> }
#[verifier::external_body]
#[verifier::reject_recursive_types(K)]
#[verifier::reject_recursive_types(V)]
pub struct Iter<'a, K, V> { _p: core::marker::PhantomData<&'a (K, V)> }
#[verifier::external_body]
pub struct Value { _p: core::marker::PhantomData<()> }
#[verifier::external_body]
pub struct JsonMap { _p: core::marker::PhantomData<()> }

pub uninterp spec fn entries<K, V>(m: &HashMap<K, V>) -> Seq<(&K, &V)>;
pub uninterp spec fn as_obj(v: &Value) -> Option<&JsonMap>;
pub uninterp spec fn obj_get(o: &JsonMap, k: Seq<char>) -> Option<&Value>;
pub uninterp spec fn allows(ft: &FieldType, v: &Value) -> bool;
pub uninterp spec fn sview(s: HashSet<&String>) -> Set<Seq<char>>;

impl<'a, K, V> Iterator for Iter<'a, K, V> {
    type Item = (&'a K, &'a V);
    #[verifier::external_body]
    fn next(&mut self) -> Option<(&'a K, &'a V)> { unimplemented!() }
}
impl<'a, K, V> vstd::std_specs::iter::IteratorSpecImpl for Iter<'a, K, V> {
    open spec fn obeys_prophetic_iter_laws(&self) -> bool { true }
    #[verifier::prophetic]
    uninterp spec fn remaining(&self) -> Seq<Self::Item>;
    #[verifier::prophetic]
    uninterp spec fn will_return_none(&self) -> bool;
    uninterp spec fn decrease(&self) -> Option<nat>;
    uninterp spec fn peek(&self, index: int) -> Option<Self::Item>;
}
impl<'a, K, V> IntoIterator for &'a HashMap<K, V> {
    type Item = (&'a K, &'a V);
    type IntoIter = Iter<'a, K, V>;
    #[verifier::external_body]
    fn into_iter(self) -> (r: Iter<'a, K, V>)
        ensures vstd::std_specs::iter::IteratorSpec::decrease(&r) is Some, vstd::std_specs::iter::IteratorSpec::remaining(&r) == entries(self)
    { unimplemented!() }
}
impl JsonMap {
    #[verifier::external_body]
    pub fn get(&self, k: &String) -> (r: Option<&Value>) ensures r == obj_get(self, k@) { unimplemented!() }
    /// number of keys; no cardinality axiom is given, so nothing about WHICH keys are present follows from it
    #[verifier::external_body]
    pub fn len(&self) -> (r: usize) ensures r == obj_len(self) { unimplemented!() }
}
impl<K, V> HashMap<K, V> {
    #[verifier::external_body]
    pub fn len(&self) -> (r: usize) ensures r == entries(self).len() { unimplemented!() }
}
pub uninterp spec fn obj_len(o: &JsonMap) -> usize;
#[verifier::external_body]
pub fn type_allows_value(ft: &FieldType, v: &Value) -> (r: bool) ensures r == allows(ft, v) { unimplemented!() }
/// E7: stands for every `format!(..)` of the function
#[verifier::external_body]
pub fn __fmt() -> String { unimplemented!() }
/// E6: stands for `payload.as_object().ok_or_else(|| ..)`
#[verifier::external_body]
pub fn as_object_or_err(payload: &Value) -> (r: Result<&JsonMap, String>)
    ensures r is Ok == as_obj(payload) is Some, r is Ok ==> Some(r->Ok_0) == as_obj(payload)
{ unimplemented!() }
/// E6: stands for `schema.fields.keys().collect()` into a HashSet<&String>
#[verifier::external_body]
pub fn schema_keyset<'a>(m: &'a HashMap<String, FieldType>) -> (r: HashSet<&'a String>)
    ensures forall|k: Seq<char>| sview(r).contains(k) <==> has_key(entries(m), k)
{ unimplemented!() }
/// E6: stands for `obj.keys().collect()` into a HashSet<&String>
#[verifier::external_body]
pub fn obj_keyset<'a>(o: &'a JsonMap) -> (r: HashSet<&'a String>)
    ensures forall|k: Seq<char>| sview(r).contains(k) <==> obj_get(o, k) is Some
{ unimplemented!() }
/// E6: stands for `actual_keys.difference(&allowed_keys).cloned().collect()` into a Vec<&String>
#[verifier::external_body]
pub fn set_difference<'a>(a: &HashSet<&'a String>, b: &HashSet<&'a String>) -> (r: Vec<&'a String>)
    ensures r@.len() == 0 <==> (forall|k: Seq<char>| sview(*a).contains(k) ==> sview(*b).contains(k))
{ unimplemented!() }

pub open spec fn has_key(es: Seq<(&String, &FieldType)>, k: Seq<char>) -> bool {
    exists|i: int| 0 <= i < es.len() && (#[trigger] es[i]).0@ == k
}
/// the statement's per-field rule: a present field must be allowed by its declared type; an absent field must be declared optional
pub open spec fn field_ok(obj: &JsonMap, e: (&String, &FieldType)) -> bool {
    match obj_get(obj, e.0@) {
        Some(v) => allows(e.1, v),
        None => *e.1 is Optional,
    }
}
pub open spec fn all_fields_ok(obj: &JsonMap, es: Seq<(&String, &FieldType)>) -> bool {
    forall|i: int| 0 <= i < es.len() ==> field_ok(obj, #[trigger] es[i])
}
pub open spec fn no_extra_keys(obj: &JsonMap, es: Seq<(&String, &FieldType)>) -> bool {
    forall|k: Seq<char>| (#[trigger] obj_get(obj, k)) is Some ==> has_key(es, k)
}
pub open spec fn conforms(payload: &Value, es: Seq<(&String, &FieldType)>) -> bool {
    as_obj(payload) is Some && all_fields_ok(as_obj(payload)->Some_0, es) && no_extra_keys(as_obj(payload)->Some_0, es)
}

} // verus!
fn main() {}
