// GENERATED on every run by tools/verus_run.py from /repo and contracts/verus/c13_update_user.spec
use vstd::prelude::*;
verus! {


pub struct PermissionSet {
    pub read: bool,
    pub write: bool,
}
pub struct UserKey {
    pub user_id: String,
    pub secret_key: String,
    pub active: bool,
    pub created_at: u64,
    pub roles: Vec<String>,
    pub permissions: HashMap<String, PermissionSet>,
}
pub struct PermissionCache {
    pub permissions: HashMap<String, HashMap<String, PermissionSet>>,
    pub admin_users: HashSet<String>,
    pub read_only_users: HashSet<String>,
    pub editor_users: HashSet<String>,
    pub write_only_users: HashSet<String>,
}

impl PermissionCache {
    pub fn update_user(&mut self, user: &UserKey)
     ensures
        sview(final(self).admin_users) =~= (if has_role(user.roles@, user.roles@.len() as int, "admin"@) { sview(old(self).admin_users).insert(user.user_id@) } else { sview(old(self).admin_users).remove(user.user_id@) }), // OBL:C13.update_user.admin_set_is_exactly_the_admin_role
        sview(final(self).read_only_users) =~= (if (has_role(user.roles@, user.roles@.len() as int, "read-only"@) || has_role(user.roles@, user.roles@.len() as int, "viewer"@)) { sview(old(self).read_only_users).insert(user.user_id@) } else { sview(old(self).read_only_users).remove(user.user_id@) }), // OBL:C13.update_user.read_only_set_is_exactly_the_reading_roles
        sview(final(self).editor_users) =~= (if has_role(user.roles@, user.roles@.len() as int, "editor"@) { sview(old(self).editor_users).insert(user.user_id@) } else { sview(old(self).editor_users).remove(user.user_id@) }), // OBL:C13.update_user.editor_set_is_exactly_the_editor_role
        sview(final(self).write_only_users) =~= (if has_role(user.roles@, user.roles@.len() as int, "write-only"@) { sview(old(self).write_only_users).insert(user.user_id@) } else { sview(old(self).write_only_users).remove(user.user_id@) }), // OBL:C13.update_user.write_only_set_is_exactly_the_write_only_role
        pview(final(self).permissions) == (if inner_empty(user.permissions) { pview(old(self).permissions).remove(user.user_id@) } else { pview(old(self).permissions).insert(user.user_id@, user.permissions) }), // OBL:C13.update_user.explicit_permissions_replaced_or_removed
{
        let user_id = &user.user_id;

        // Update role sets - remove from all first, then add to appropriate ones
        self.admin_users.remove(user_id);
        self.read_only_users.remove(user_id);
        self.editor_users.remove(user_id);
        self.write_only_users.remove(user_id);

        // Add user to appropriate role sets
        for role in it: &user.roles 
             invariant
                sview(self.admin_users) =~= (if has_role(user.roles@, it.index@, "admin"@) { sview(old(self).admin_users).insert(user.user_id@) } else { sview(old(self).admin_users).remove(user.user_id@) }),
                sview(self.read_only_users) =~= (if (has_role(user.roles@, it.index@, "read-only"@) || has_role(user.roles@, it.index@, "viewer"@)) { sview(old(self).read_only_users).insert(user.user_id@) } else { sview(old(self).read_only_users).remove(user.user_id@) }),
                sview(self.editor_users) =~= (if has_role(user.roles@, it.index@, "editor"@) { sview(old(self).editor_users).insert(user.user_id@) } else { sview(old(self).editor_users).remove(user.user_id@) }),
                sview(self.write_only_users) =~= (if has_role(user.roles@, it.index@, "write-only"@) { sview(old(self).write_only_users).insert(user.user_id@) } else { sview(old(self).write_only_users).remove(user.user_id@) }),
                self.permissions == old(self).permissions,
                user_id == &user.user_id,
{
             broadcast use str_inj;
             proof { reveal_strlit("admin"); reveal_strlit("read-only"); reveal_strlit("viewer"); reveal_strlit("editor"); reveal_strlit("write-only"); }
             let ghost n = it.index@;
             assert(*role == user.roles@[n]);
             proof { lemma_has_role_step(user.roles@, n, "admin"@); lemma_has_role_step(user.roles@, n, "read-only"@); lemma_has_role_step(user.roles@, n, "viewer"@); lemma_has_role_step(user.roles@, n, "editor"@); lemma_has_role_step(user.roles@, n, "write-only"@); }

            match role.as_str() {
                "admin" => {
                    self.admin_users.insert(user_id.clone());
                }
                "read-only" | "viewer" => {
                    self.read_only_users.insert(user_id.clone());
                }
                "editor" => {
                    self.editor_users.insert(user_id.clone());
                }
                "write-only" => {
                    self.write_only_users.insert(user_id.clone());
                }
                _ => {
                    // Unknown role - ignore (could log in future)
                }
            }
        }

        // Update permissions
        if user.permissions.is_empty() {
            self.permissions.remove(user_id);
        } else {
            self.permissions
                .insert(user_id.clone(), user.permissions.clone());
        }
    }

}

// ---- spec functions and lemmas from the contract file ----
// ---- TRUSTED declarations: std HashSet<String> / HashMap seen through `sview` / `pview` with remove / insert / is_empty /
// ---- clone, and one axiom about `str`: a string value is determined by its characters (`str_inj`), which is what lets the
// ---- `match role.as_str() { "admin" => .. }` arms be read as comparisons of character sequences.
#[verifier::external_body]
#[verifier::reject_recursive_types(K)]
#[verifier::reject_recursive_types(V)]
pub struct HashMap<K, V> { _p: core::marker::PhantomData<(K, V)> }
#[verifier::external_body]
#[verifier::reject_recursive_types(T)]
pub struct HashSet<T> { _p: core::marker::PhantomData<T> }
pub uninterp spec fn sview(s: HashSet<String>) -> Set<Seq<char>>;
pub uninterp spec fn pview(m: HashMap<String, HashMap<String, PermissionSet>>) -> Map<Seq<char>, HashMap<String, PermissionSet>>;
pub uninterp spec fn inner_empty(m: HashMap<String, PermissionSet>) -> bool;
impl HashSet<String> {
    #[verifier::external_body]
    pub fn remove(&mut self, k: &String) -> (r: bool) ensures sview(*final(self)) == sview(*old(self)).remove(k@) { unimplemented!() }
    #[verifier::external_body]
    pub fn insert(&mut self, k: String) -> (r: bool) ensures sview(*final(self)) == sview(*old(self)).insert(k@) { unimplemented!() }
}
impl HashMap<String, HashMap<String, PermissionSet>> {
    #[verifier::external_body]
    pub fn remove(&mut self, k: &String) -> (r: Option<HashMap<String, PermissionSet>>) ensures pview(*final(self)) == pview(*old(self)).remove(k@) { unimplemented!() }
    #[verifier::external_body]
    pub fn insert(&mut self, k: String, v: HashMap<String, PermissionSet>) -> (r: Option<HashMap<String, PermissionSet>>) ensures pview(*final(self)) == pview(*old(self)).insert(k@, v) { unimplemented!() }
}
impl HashMap<String, PermissionSet> {
    #[verifier::external_body]
    pub fn is_empty(&self) -> (r: bool) ensures r == inner_empty(*self) { unimplemented!() }
}
impl Clone for HashMap<String, PermissionSet> {
    #[verifier::external_body]
    fn clone(&self) -> (r: Self) ensures r == *self { unimplemented!() }
}
/// two strings with the same characters are the same string value
pub uninterp spec fn str_of(s: Seq<char>) -> &'static str;
pub broadcast axiom fn str_inj(a: &str) ensures a == str_of(#[trigger] a@);

pub open spec fn has_role(roles: Seq<String>, n: int, name: Seq<char>) -> bool { exists|i: int| 0 <= i < n && (#[trigger] roles[i])@ == name }

pub proof fn lemma_has_role_step(roles: Seq<String>, n: int, name: Seq<char>)
    requires 0 <= n < roles.len()
    ensures has_role(roles, n + 1, name) == (has_role(roles, n, name) || roles[n]@ == name)
{
    if has_role(roles, n + 1, name) {
        let i = choose|i: int| 0 <= i < n + 1 && (#[trigger] roles[i])@ == name;
        if i < n { assert(has_role(roles, n, name)); }
    }
    if has_role(roles, n, name) {
        let i = choose|i: int| 0 <= i < n && (#[trigger] roles[i])@ == name;
        assert(0 <= i < n + 1 && roles[i]@ == name);
    }
    if roles[n]@ == name { assert(0 <= n < n + 1 && roles[n]@ == name); }
}

} // verus!
fn main() {}
