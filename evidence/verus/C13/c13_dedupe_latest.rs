// GENERATED on every run by tools/verus_run.py from /repo and contracts/verus/c13_dedupe_latest.spec
use vstd::prelude::*;
verus! {


pub struct PermissionSet {
    pub read: bool,
    pub write: bool,
}
pub struct User {
    pub user_id: String,
    pub secret_key: String,
    pub active: bool,
    pub created_at: u64,
    pub roles: Vec<String>,
    pub permissions: HashMap<String, PermissionSet>,
}
pub struct UserKey {
    pub user_id: String,
    pub secret_key: String,
    pub active: bool,
    pub created_at: u64,
    pub roles: Vec<String>,
    pub permissions: HashMap<String, PermissionSet>,
}
pub struct StoredUser {
    pub user: User,
    pub persisted_at: u64,
}

impl UserKey {
    pub fn from(user: User) -> (k: Self)
     ensures k == key_of(user), // OBL:C13.dedupe_latest.user_key_from.copies_every_field
{
        Self {
            user_id: user.user_id,
            secret_key: user.secret_key,
            active: user.active,
            created_at: user.created_at,
            roles: user.roles,
            permissions: user.permissions,
        }
    }

}

pub fn dedupe_latest(records: Vec<StoredUser>) -> (r: Vec<UserKey>)
     ensures
         forall|i: int| 0 <= i < r@.len() ==> is_latest_of(records@, #[trigger] r@[i]), // OBL:C13.dedupe_latest.every_loaded_user_is_its_latest_record
         forall|k: int| 0 <= k < records@.len() ==> has_id(r@, (#[trigger] records@[k]).user.user_id@), // OBL:C13.dedupe_latest.no_user_of_the_log_is_dropped
         forall|i1: int, i2: int| 0 <= i1 < r@.len() && 0 <= i2 < r@.len() && (#[trigger] r@[i1]).user_id@ == (#[trigger] r@[i2]).user_id@ ==> i1 == i2,   // OBL:C13.dedupe_latest.one_entry_per_user
{
    let mut latest: HashMap<String, (u64, User)> = HashMap::new();
    for record in it: records 
         invariant latest_inv(records@, it.index@, mview(latest)), it.history@ =~= records@.take(it.index@),
{
         let ghost m0 = mview(latest);
         let ghost n = it.index@;
         assert(record == records@[n]);

        match latest.entry(record.user.user_id.clone()) {
            Entry::Vacant(slot) => {
                slot.insert((record.persisted_at, record.user));
            }
            Entry::Occupied(mut slot) => {
                if record.persisted_at >= slot.get().0 {
                    slot.insert((record.persisted_at, record.user));
                }
            
                 proof { occ_resolves(slot); }
}
        }
    
         proof { lemma_step(records@, n, m0, mview(latest)); }
}
     proof { lemma_post(records@, mview(latest)); }

    collect_keys(latest)
}

// ---- spec functions and lemmas from the contract file ----
// ---- abstract map standing in for std::collections::HashMap and its entry API (TRUSTED declarations): the map is
// ---- seen through `mview`; an entry carries the key, the map it was taken from, and a prophecy of the map at the
// ---- moment the entry's borrow ends. `occ_resolves` is the one axiom: when an occupied entry is dropped, the map is
// ---- what the entry last showed.
#[verifier::external_body]
#[verifier::reject_recursive_types(K)]
#[verifier::reject_recursive_types(V)]
pub struct HashMap<K, V> { _p: core::marker::PhantomData<(K, V)> }
#[verifier::external_body]
#[verifier::reject_recursive_types(K)]
#[verifier::reject_recursive_types(V)]
pub struct VacantEntry<'a, K, V> { _p: core::marker::PhantomData<&'a mut (K, V)> }
#[verifier::external_body]
#[verifier::reject_recursive_types(K)]
#[verifier::reject_recursive_types(V)]
pub struct OccupiedEntry<'a, K, V> { _p: core::marker::PhantomData<&'a mut (K, V)> }
#[verifier::reject_recursive_types(K)]
#[verifier::reject_recursive_types(V)]
pub enum Entry<'a, K, V> { Occupied(OccupiedEntry<'a, K, V>), Vacant(VacantEntry<'a, K, V>) }

pub uninterp spec fn mview<V>(m: HashMap<String, V>) -> Map<Seq<char>, V>;
pub uninterp spec fn v_key<V>(e: VacantEntry<String, V>) -> Seq<char>;
pub uninterp spec fn v_before<V>(e: VacantEntry<String, V>) -> Map<Seq<char>, V>;
pub uninterp spec fn v_after<V>(e: VacantEntry<String, V>) -> Map<Seq<char>, V>;
pub uninterp spec fn o_key<V>(e: OccupiedEntry<String, V>) -> Seq<char>;
pub uninterp spec fn o_now<V>(e: OccupiedEntry<String, V>) -> Map<Seq<char>, V>;
pub uninterp spec fn o_after<V>(e: OccupiedEntry<String, V>) -> Map<Seq<char>, V>;

impl<V> HashMap<String, V> {
    #[verifier::external_body]
    pub fn new() -> (m: Self) ensures mview(m) == Map::<Seq<char>, V>::empty() { unimplemented!() }
    #[verifier::external_body]
    pub fn entry(&mut self, k: String) -> (e: Entry<'_, String, V>)
        ensures match e {
            Entry::Vacant(v) => !mview(*old(self)).contains_key(k@) && v_key(v) == k@ && v_before(v) == mview(*old(self)) && v_after(v) == mview(*final(self)),
            Entry::Occupied(o) => mview(*old(self)).contains_key(k@) && o_key(o) == k@ && o_now(o) == mview(*old(self)) && o_after(o) == mview(*final(self)),
        }
    { unimplemented!() }
}
impl<'a, V> VacantEntry<'a, String, V> {
    #[verifier::external_body]
    pub fn insert(self, value: V) -> (r: &'a mut V)
        ensures v_after(self) == v_before(self).insert(v_key(self), *final(r)), *r == value
    { unimplemented!() }
}
impl<'a, V> OccupiedEntry<'a, String, V> {
    #[verifier::external_body]
    pub fn get(&self) -> (r: &V)
        ensures o_now(*self).contains_key(o_key(*self)), *r == o_now(*self)[o_key(*self)]
    { unimplemented!() }
    #[verifier::external_body]
    pub fn insert(&mut self, value: V) -> (r: V)
        ensures o_now(*final(self)) == o_now(*old(self)).insert(o_key(*old(self)), value), o_key(*final(self)) == o_key(*old(self)),
                o_after(*final(self)) == o_after(*old(self)),
    { unimplemented!() }
}
pub axiom fn occ_resolves<V>(e: OccupiedEntry<String, V>)
    requires has_resolved(e)
    ensures o_after(e) == o_now(e);

pub open spec fn key_of(u: User) -> UserKey {
    UserKey { user_id: u.user_id, secret_key: u.secret_key, active: u.active, created_at: u.created_at, roles: u.roles, permissions: u.permissions }
}

/// E6: stands for `latest.into_values().map(|(_, user)| UserKey::from(user)).collect()` (iterator adapters and the closure are
/// outside Verus' syntax). TRUSTED: the result lists `UserKey::from` of every value of the map, each map entry once, in some order.
#[verifier::external_body]
pub fn collect_keys(latest: HashMap<String, (u64, User)>) -> (r: Vec<UserKey>)
    ensures collected(mview(latest), r@)
{ unimplemented!() }

pub open spec fn collected(m: Map<Seq<char>, (u64, User)>, r: Seq<UserKey>) -> bool {
    exists|ids: Seq<Seq<char>>| listing(m, r, ids)
}
pub open spec fn listing(m: Map<Seq<char>, (u64, User)>, r: Seq<UserKey>, ids: Seq<Seq<char>>) -> bool {
    ids.no_duplicates() && ids.len() == r.len()
        && (forall|id: Seq<char>| m.contains_key(id) <==> ids.contains(id))
        && (forall|i: int| 0 <= i < ids.len() ==> #[trigger] r[i] == key_of(m[ids[i]].1))
}
pub open spec fn is_latest_of(rs: Seq<StoredUser>, key: UserKey) -> bool {
    exists|j: int| wins(rs, rs.len() as int, j) && key == key_of(#[trigger] rs[j].user)
}
pub open spec fn has_id(r: Seq<UserKey>, id: Seq<char>) -> bool {
    exists|i: int| 0 <= i < r.len() && (#[trigger] r[i]).user_id@ == id
}
pub open spec fn post(rs: Seq<StoredUser>, r: Seq<UserKey>) -> bool {
    &&& forall|i: int| 0 <= i < r.len() ==> is_latest_of(rs, #[trigger] r[i])
    &&& forall|k: int| 0 <= k < rs.len() ==> has_id(r, (#[trigger] rs[k]).user.user_id@)
    &&& forall|i1: int, i2: int| 0 <= i1 < r.len() && 0 <= i2 < r.len() && (#[trigger] r[i1]).user_id@ == (#[trigger] r[i2]).user_id@ ==> i1 == i2
}
pub proof fn lemma_post(rs: Seq<StoredUser>, m: Map<Seq<char>, (u64, User)>)
    requires latest_inv(rs, rs.len() as int, m)
    ensures forall|r: Seq<UserKey>| #[trigger] collected(m, r) ==> post(rs, r)
{
    assert forall|r: Seq<UserKey>| #[trigger] collected(m, r) implies post(rs, r) by {
        let ids = choose|ids: Seq<Seq<char>>| listing(m, r, ids);
        let n = rs.len() as int;
        // every listed id is a key, and the entry is the winner's record
        assert forall|i: int| 0 <= i < r.len() implies is_latest_of(rs, #[trigger] r[i]) && r[i].user_id@ == ids[i] by {
            assert(ids.contains(ids[i]));
            assert(m.contains_key(ids[i]));
            let j = choose|j: int| wins(rs, n, j) && rs[j].user.user_id@ == ids[i] && m[ids[i]] == (rs[j].persisted_at, rs[j].user);
            assert(r[i] == key_of(rs[j].user));
        }
        assert forall|k: int| 0 <= k < rs.len() implies has_id(r, (#[trigger] rs[k]).user.user_id@) by {
            assert(m.contains_key(rs[k].user.user_id@));
            assert(ids.contains(rs[k].user.user_id@));
            let i = choose|i: int| 0 <= i < ids.len() && ids[i] == rs[k].user.user_id@;
            assert(r[i].user_id@ == ids[i]);
        }
        assert forall|i1: int, i2: int| 0 <= i1 < r.len() && 0 <= i2 < r.len() && (#[trigger] r[i1]).user_id@ == (#[trigger] r[i2]).user_id@ implies i1 == i2 by {
            assert(r[i1].user_id@ == ids[i1]);
            assert(r[i2].user_id@ == ids[i2]);
        }
    }
}

/// record j is the winner among the first n records for its user id: no record of that id has a greater
/// persisted_at, and among equal ones it is the last in log order
pub open spec fn wins(rs: Seq<StoredUser>, n: int, j: int) -> bool {
    0 <= j < n && forall|k: int| 0 <= k < n && #[trigger] rs[k].user.user_id@ == rs[j].user.user_id@ ==>
        (rs[k].persisted_at < rs[j].persisted_at || (rs[k].persisted_at == rs[j].persisted_at && k <= j))
}
pub open spec fn latest_inv(rs: Seq<StoredUser>, n: int, m: Map<Seq<char>, (u64, User)>) -> bool {
    &&& forall|k: int| 0 <= k < n ==> m.contains_key(#[trigger] rs[k].user.user_id@)
    &&& forall|id: Seq<char>| #[trigger] m.contains_key(id) ==> exists|j: int| wins(rs, n, j) && rs[j].user.user_id@ == id && m[id] == (rs[j].persisted_at, rs[j].user)
}
pub open spec fn step(m: Map<Seq<char>, (u64, User)>, r: StoredUser) -> Map<Seq<char>, (u64, User)> {
    if m.contains_key(r.user.user_id@) && r.persisted_at < m[r.user.user_id@].0 { m } else { m.insert(r.user.user_id@, (r.persisted_at, r.user)) }
}
pub proof fn lemma_step(rs: Seq<StoredUser>, n: int, m0: Map<Seq<char>, (u64, User)>, m1: Map<Seq<char>, (u64, User)>)
    requires 0 <= n < rs.len(), latest_inv(rs, n, m0), m1 =~= step(m0, rs[n])
    ensures latest_inv(rs, n + 1, m1)
{
    let id = rs[n].user.user_id@;
    assert forall|x: Seq<char>| #[trigger] m1.contains_key(x) implies exists|j: int| wins(rs, n + 1, j) && rs[j].user.user_id@ == x && m1[x] == (rs[j].persisted_at, rs[j].user) by {
        if x == id {
            if m0.contains_key(id) && rs[n].persisted_at < m0[id].0 {
                let j = choose|j: int| wins(rs, n, j) && rs[j].user.user_id@ == id && m0[id] == (rs[j].persisted_at, rs[j].user);
                assert(wins(rs, n + 1, j));
            } else {
                if m0.contains_key(id) {
                    let j = choose|j: int| wins(rs, n, j) && rs[j].user.user_id@ == id && m0[id] == (rs[j].persisted_at, rs[j].user);
                    assert(wins(rs, n + 1, n));
                } else {
                    assert(wins(rs, n + 1, n));
                }
            }
        } else {
            assert(m0.contains_key(x));
            let j = choose|j: int| wins(rs, n, j) && rs[j].user.user_id@ == x && m0[x] == (rs[j].persisted_at, rs[j].user);
            assert(wins(rs, n + 1, j));
        }
    }
}

} // verus!
fn main() {}
