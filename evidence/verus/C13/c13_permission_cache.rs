// GENERATED on every run by tools/verus_run.py from /repo and contracts/verus/c13_permission_cache.spec
use vstd::prelude::*;
verus! {


pub struct PermissionSet {
    pub read: bool,
    pub write: bool,
}
pub struct PermissionCache {
    pub permissions: HashMap<String, HashMap<String, PermissionSet>>,
    pub admin_users: HashSet<String>,
    pub read_only_users: HashSet<String>,
    pub editor_users: HashSet<String>,
    pub write_only_users: HashSet<String>,
}

impl PermissionCache {
    pub fn can_read(&self, user_id: &str, event_type: &str) -> (r: bool)
     ensures
         r ==> (self.admin(user_id) || self.grants_read(user_id, event_type) || self.reader_role(user_id)),  // OBL:C13.permission_cache.can_read.only_with_read_permission_or_reading_role
         (!self.admin(user_id) && self.explicit(user_id, event_type) == Some(PermissionSet { read: false, write: false })) ==> !r,                   // OBL:C13.permission_cache.can_read.revoke_all_overrides_role
         (self.admin(user_id) || self.grants_read(user_id, event_type)) ==> r,                                   // OBL:C13.permission_cache.can_read.granted_read_is_honoured
{
        // Admin users can read everything
        if self.admin_users.contains(user_id) {
            return true;
        }

        // Check specific permissions first (most granular)
        if let Some(user_perms) = self.permissions.get(user_id) {
            if let Some(perms) = user_perms.get(event_type) {
                if perms.read {
                    return true;
                }
                // Permission set exists but doesn't grant READ
                // If both read and write are false, this is an explicit denial (e.g., after REVOKE ALL)
                // In that case, override role and deny access
                if !perms.read && !perms.write {
                    return false;
                }
                // Permission set has read=false but write=true - likely from GRANT WRITE
                // Fall through to check role for READ
            }
        }

        // If no specific permissions for this event_type, check roles (broader access)
        // Read-only and editor roles can read everything
        if self.read_only_users.contains(user_id) || self.editor_users.contains(user_id) {
            return true;
        }

        // Write-only role cannot read (unless overridden by permissions above)
        if self.write_only_users.contains(user_id) {
            return false;
        }

        // No permissions and no roles
        false
    }

    pub fn can_write(&self, user_id: &str, event_type: &str) -> (r: bool)
     ensures
         r ==> (self.admin(user_id) || self.grants_write(user_id, event_type)
                || (self.explicit(user_id, event_type) is None && self.writer_role(user_id))),                                                         // OBL:C13.permission_cache.can_write.only_with_write_permission_or_writing_role
         (!self.admin(user_id) && self.denies_write(user_id, event_type)) ==> !r,                                // OBL:C13.permission_cache.can_write.revoked_write_overrides_role
         (self.admin(user_id) || self.grants_write(user_id, event_type)) ==> r,                                  // OBL:C13.permission_cache.can_write.granted_write_is_honoured
{
        // Admin users can write everything
        if self.admin_users.contains(user_id) {
            return true;
        }

        // Check specific permissions first (most granular)
        // If permission set exists for this event_type, it overrides role completely
        if let Some(user_perms) = self.permissions.get(user_id) {
            if let Some(perms) = user_perms.get(event_type) {
                // Permission set exists - use it directly (overrides role)
                return perms.write;
            }
        }

        // If no specific permissions for this event_type, check roles (broader access)
        // Editor and write-only roles can write everything
        if self.editor_users.contains(user_id) || self.write_only_users.contains(user_id) {
            return true;
        }

        // Read-only role cannot write (unless overridden by permissions above)
        if self.read_only_users.contains(user_id) {
            return false;
        }

        // No permissions and no roles
        false
    }

    pub fn is_admin(&self, user_id: &str) -> (r: bool)
     ensures r == self.admin(user_id), // OBL:C13.permission_cache.is_admin.is_admin_set_membership
{
        self.admin_users.contains(user_id)
    }

}

// ---- spec functions and lemmas from the contract file ----
// ---- abstract map / set standing in for std::collections::{HashMap, HashSet}: only `get` / `contains` with a &str
// ---- key are used by the three methods; their results are uninterpreted functions of (container, key). TRUSTED.
#[verifier::external_body]
#[verifier::reject_recursive_types(K)]
#[verifier::reject_recursive_types(V)]
pub struct HashMap<K, V> { _p: core::marker::PhantomData<(K, V)> }
#[verifier::external_body]
#[verifier::reject_recursive_types(T)]
pub struct HashSet<T> { _p: core::marker::PhantomData<T> }

pub uninterp spec fn set_has(s: HashSet<String>, key: &str) -> bool;
pub uninterp spec fn outer_get(m: HashMap<String, HashMap<String, PermissionSet>>, key: &str) -> Option<HashMap<String, PermissionSet>>;
pub uninterp spec fn inner_get(m: HashMap<String, PermissionSet>, key: &str) -> Option<PermissionSet>;

impl HashSet<String> {
    #[verifier::external_body]
    pub fn contains(&self, key: &str) -> (r: bool)
        ensures r == set_has(*self, key)
    { unimplemented!() }
}
impl HashMap<String, HashMap<String, PermissionSet>> {
    #[verifier::external_body]
    pub fn get(&self, key: &str) -> (r: Option<&HashMap<String, PermissionSet>>)
        ensures r.is_some() == outer_get(*self, key).is_some(), r.is_some() ==> *r.unwrap() == outer_get(*self, key).unwrap()
    { unimplemented!() }
}
impl HashMap<String, PermissionSet> {
    #[verifier::external_body]
    pub fn get(&self, key: &str) -> (r: Option<&PermissionSet>)
        ensures r.is_some() == inner_get(*self, key).is_some(), r.is_some() ==> *r.unwrap() == inner_get(*self, key).unwrap()
    { unimplemented!() }
}

impl PermissionCache {
    pub open spec fn admin(&self, u: &str) -> bool { set_has(self.admin_users, u) }
    /// roles of the statement: "a reading role" = read-only or editor; "a writing role" = editor or write-only
    pub open spec fn reader_role(&self, u: &str) -> bool { set_has(self.read_only_users, u) || set_has(self.editor_users, u) }
    pub open spec fn writer_role(&self, u: &str) -> bool { set_has(self.editor_users, u) || set_has(self.write_only_users, u) }
    /// the explicit permission set of (user, event type), if any
    pub open spec fn explicit(&self, u: &str, t: &str) -> Option<PermissionSet> {
        match outer_get(self.permissions, u) { Some(m) => inner_get(m, t), None => None }
    }
    pub open spec fn grants_read(&self, u: &str, t: &str) -> bool { match self.explicit(u, t) { Some(p) => p.read, None => false } }
    pub open spec fn grants_write(&self, u: &str, t: &str) -> bool { match self.explicit(u, t) { Some(p) => p.write, None => false } }
    pub open spec fn denies_write(&self, u: &str, t: &str) -> bool { match self.explicit(u, t) { Some(p) => !p.write, None => false } }
}

} // verus!
fn main() {}
