// GENERATED on every run by tools/verus_run.py from /repo and contracts/verus/c11_allocator.spec
use vstd::prelude::*;
verus! {

pub const LEVEL_SPAN: u32 = 10_000;

pub struct RangeAllocator {
    pub next_offset_by_level: HashMap<u32, u32>,
}

impl RangeAllocator {
    pub fn next_for_level(&mut self, level: u32) -> (id: u32)
     ensures
         id == sat_add(sat_mul(level, LEVEL_SPAN), offset_of(mview(old(self).next_offset_by_level), level)),   // OBL:C11.allocator.next_for_level.id_is_level_base_plus_offset
         mview(final(self).next_offset_by_level) == mview(old(self).next_offset_by_level).insert(level, sat_add(offset_of(mview(old(self).next_offset_by_level), level), 1)),   // OBL:C11.allocator.next_for_level.only_this_level_advances_by_one
{
        let next_off = self.next_offset_by_level.entry(level).or_insert(0);
        let id = level.saturating_mul(LEVEL_SPAN).saturating_add(*next_off);
        *next_off = next_off.saturating_add(1);
        id
    }

}

// ---- spec functions and lemmas from the contract file ----
// ---- abstract map standing in for std::collections::HashMap<u32,u32>: only `entry(k).or_insert(d)` is used. TRUSTED
// ---- declarations; the mutable borrow handed out by or_insert is specified with a prophecy (`e_after`) for the map
// ---- at the moment the borrow ends.
#[verifier::external_body]
#[verifier::reject_recursive_types(K)]
#[verifier::reject_recursive_types(V)]
pub struct HashMap<K, V> { _p: core::marker::PhantomData<(K, V)> }
#[verifier::external_body]
#[verifier::reject_recursive_types(K)]
#[verifier::reject_recursive_types(V)]
pub struct Entry<'a, K, V> { _p: core::marker::PhantomData<&'a mut (K, V)> }
pub uninterp spec fn mview<K, V>(m: HashMap<K, V>) -> Map<K, V>;
pub uninterp spec fn e_key<K, V>(e: Entry<K, V>) -> K;
pub uninterp spec fn e_before<K, V>(e: Entry<K, V>) -> Map<K, V>;
pub uninterp spec fn e_after<K, V>(e: Entry<K, V>) -> Map<K, V>;
impl<K, V> HashMap<K, V> {
    #[verifier::external_body]
    pub fn entry(&mut self, k: K) -> (e: Entry<'_, K, V>)
        ensures e_key(e) == k, e_before(e) == mview(*old(self)), e_after(e) == mview(*final(self)),
    { unimplemented!() }
}
impl<'a, K, V> Entry<'a, K, V> {
    #[verifier::external_body]
    pub fn or_insert(self, d: V) -> (r: &'a mut V)
        ensures *r == (if e_before(self).contains_key(e_key(self)) { e_before(self)[e_key(self)] } else { d }),
                e_after(self) == e_before(self).insert(e_key(self), *final(r)),
    { unimplemented!() }
}

pub open spec fn sat_add(a: u32, b: u32) -> u32 { if a + b > u32::MAX { u32::MAX } else { (a + b) as u32 } }
pub open spec fn sat_mul(a: u32, b: u32) -> u32 { if a * b > u32::MAX { u32::MAX } else { (a * b) as u32 } }
pub open spec fn offset_of(m: Map<u32, u32>, level: u32) -> u32 { if m.contains_key(level) { m[level] } else { 0u32 } }

/// a caller seen only through the contract: allocate on `level`, then on `other`, then on `level` again
pub fn two_allocations(a: &mut RangeAllocator, level: u32, other: u32) -> (r: (u32, u32))
    requires other != level,
             level * LEVEL_SPAN + offset_of(mview(old(a).next_offset_by_level), level) + 1 <= u32::MAX,
    ensures r.1 == r.0 + 1,
            r.0 == level * LEVEL_SPAN + offset_of(mview(old(a).next_offset_by_level), level),
{
    let first = a.next_for_level(level);
    let _o = a.next_for_level(other);
    let second = a.next_for_level(level);
    (first, second)
}

pub proof fn lemma_levels_disjoint(l1: u32, o1: u32, l2: u32, o2: u32)
    requires l1 != l2, o1 < LEVEL_SPAN, o2 < LEVEL_SPAN,
    ensures l1 * LEVEL_SPAN + o1 != l2 * LEVEL_SPAN + o2
{
    assert(l1 * LEVEL_SPAN + o1 != l2 * LEVEL_SPAN + o2) by (nonlinear_arith)
        requires l1 != l2, o1 < LEVEL_SPAN, o2 < LEVEL_SPAN, LEVEL_SPAN > 0;
}

} // verus!
fn main() {}
