// GENERATED on every run by tools/verus_run.py from /repo and contracts/verus/c11_index_tree.spec
use vstd::prelude::*;
verus! {

pub const LEVEL_SPAN: u32 = 10_000;

pub struct SegmentEntry {
    pub id: u32,
    pub uids: Vec<String>,
}
pub struct SegmentIndexTree {
    pub by_level: BTreeMap<u32, BTreeMap<u32, SegmentEntry>>,
}

impl SegmentEntry {
    pub fn offset_in_level(&self) -> (r: u32)
     ensures r == self.id % LEVEL_SPAN, // OBL:C11.index_tree.offset_in_level.is_id_mod_span
{
        self.id % LEVEL_SPAN
    }

}

impl SegmentIndexTree {
    pub fn insert(&mut self, entry: SegmentEntry)
     ensures
         slot(tview(final(self).by_level), entry.id / LEVEL_SPAN, entry.id % LEVEL_SPAN) == Some(entry), // OBL:C11.index_tree.insert.entry_is_filed_under_its_own_level_and_offset
         forall|l: u32, o: u32| !(l == entry.id / LEVEL_SPAN && o == entry.id % LEVEL_SPAN) ==> slot(tview(final(self).by_level), l, o) == slot(tview(old(self).by_level), l, o), // OBL:C11.index_tree.insert.no_other_entry_changes
{
        let level = entry.level();
        let offset = entry.offset_in_level();
        self.by_level
            .entry(level)
            .or_default()
            .insert(offset, entry);
    }

    pub fn remove_uid(&mut self, level: u32, offset: u32, uid: &str) -> (r: Option<SegmentEntry>)
     ensures
         forall|l: u32, o: u32| !(l == level && o == offset) ==> slot(tview(final(self).by_level), l, o) == slot(tview(old(self).by_level), l, o), // OBL:C11.index_tree.remove_uid.no_other_entry_changes
         slot(tview(old(self).by_level), level, offset) is None ==> r is None && slot(tview(final(self).by_level), level, offset) is None, // OBL:C11.index_tree.remove_uid.absent_entry_is_a_no_op
         slot(tview(old(self).by_level), level, offset) is Some ==> ({
             let e = slot(tview(old(self).by_level), level, offset)->Some_0;
             let rest = without(e.uids@, uid);
             if rest.len() != e.uids@.len() && rest.len() == 0 {
                 slot(tview(final(self).by_level), level, offset) is None && r is Some && r->Some_0.id == e.id && r->Some_0.uids@ == rest
             } else {
                 r is None && slot(tview(final(self).by_level), level, offset) is Some
                     && slot(tview(final(self).by_level), level, offset)->Some_0.id == e.id
                     && slot(tview(final(self).by_level), level, offset)->Some_0.uids@ == rest
             }
         }), // OBL:C11.index_tree.remove_uid.entry_leaves_the_index_only_with_its_last_uid
{
        let mut removed_entry = None;
        let should_remove_level = {
            let level_map = match self.by_level.get_mut(&level) {
                Some(map) => map,
                None => {
                    if false {
                        ();
                    }
                    return None;
                }
            };

            let mut remove_offset = false;
             let ghost lm0 = lview(*level_map);
             assert(lm0 == lview(tview(old(self).by_level)[level]));
            if let Some(entry) = level_map.get_mut(&offset) {
                let before_uids = entry.uids.clone();
                let before_count = entry.uids.len();
                retain_other(&mut entry.uids, uid);
                let after_count = entry.uids.len();

                if false {
                    ();
                }

                if before_count != after_count && entry.uids.is_empty() {
                    remove_offset = true;
                    if false {
                        ();
                    }
                }
            } else {
                if false {
                    ();
                }
                return None;
            }

            if remove_offset {
                removed_entry = level_map.remove(&offset);
            }
             let ghost lm_final = lview(*level_map);
             assert(forall|o: u32| o != offset ==> (lm_final.contains_key(o) == lm0.contains_key(o)) && (lm_final.contains_key(o) ==> lm_final[o] == lm0[o]));
             let ghost e0 = lm0[offset];
             let ghost rest = without(e0.uids@, uid);
             assert(lm0.contains_key(offset));
             if remove_offset {
                 assert(!lm_final.contains_key(offset));
                 assert(removed_entry is Some && removed_entry->Some_0.id == e0.id && removed_entry->Some_0.uids@ == rest);
             } else {
                 assert(lm_final.contains_key(offset) && lm_final[offset].id == e0.id && lm_final[offset].uids@ == rest);
                 assert(removed_entry is None);
             }

            level_map.is_empty()
        };

        if should_remove_level {
            self.by_level.remove(&level);
            if false {
                ();
            }
        }

        removed_entry
    }

}

// ---- spec functions and lemmas from the contract file ----
// ---- TRUSTED declarations: std BTreeMap<u32, BTreeMap<u32, SegmentEntry>> seen through `tview` (outer) and `lview`
// ---- (inner); entry(..).or_default() hands out a borrow of the inner map (prophecy for the outer map when it ends);
// ---- SegmentEntry::level is external with the contract proved in Kani unit c11_segment_ids (id / LEVEL_SPAN).
#[verifier::external_body]
#[verifier::reject_recursive_types(K)]
#[verifier::reject_recursive_types(V)]
pub struct BTreeMap<K, V> { _p: core::marker::PhantomData<(K, V)> }
#[verifier::external_body]
#[verifier::reject_recursive_types(K)]
#[verifier::reject_recursive_types(V)]
pub struct Entry<'a, K, V> { _p: core::marker::PhantomData<&'a mut (K, V)> }
pub uninterp spec fn lview(m: BTreeMap<u32, SegmentEntry>) -> Map<u32, SegmentEntry>;
pub uninterp spec fn tview(m: BTreeMap<u32, BTreeMap<u32, SegmentEntry>>) -> Map<u32, BTreeMap<u32, SegmentEntry>>;
pub uninterp spec fn e_key(e: Entry<u32, BTreeMap<u32, SegmentEntry>>) -> u32;
pub uninterp spec fn e_before(e: Entry<u32, BTreeMap<u32, SegmentEntry>>) -> Map<u32, BTreeMap<u32, SegmentEntry>>;
pub uninterp spec fn e_after(e: Entry<u32, BTreeMap<u32, SegmentEntry>>) -> Map<u32, BTreeMap<u32, SegmentEntry>>;
impl BTreeMap<u32, BTreeMap<u32, SegmentEntry>> {
    #[verifier::external_body]
    pub fn entry(&mut self, k: u32) -> (e: Entry<'_, u32, BTreeMap<u32, SegmentEntry>>)
        ensures e_key(e) == k, e_before(e) == tview(*old(self)), e_after(e) == tview(*final(self)),
    { unimplemented!() }
}
impl<'a> Entry<'a, u32, BTreeMap<u32, SegmentEntry>> {
    #[verifier::external_body]
    pub fn or_default(self) -> (r: &'a mut BTreeMap<u32, SegmentEntry>)
        ensures lview(*r) == (if e_before(self).contains_key(e_key(self)) { lview(e_before(self)[e_key(self)]) } else { Map::<u32, SegmentEntry>::empty() }),
                e_after(self) == e_before(self).insert(e_key(self), *final(r)),
    { unimplemented!() }
}
impl BTreeMap<u32, SegmentEntry> {
    #[verifier::external_body]
    pub fn insert(&mut self, k: u32, v: SegmentEntry) -> (r: Option<SegmentEntry>)
        ensures lview(*final(self)) == lview(*old(self)).insert(k, v)
    { unimplemented!() }
}
impl BTreeMap<u32, BTreeMap<u32, SegmentEntry>> {
    #[verifier::external_body]
    pub fn get_mut(&mut self, k: &u32) -> (r: Option<&mut BTreeMap<u32, SegmentEntry>>)
        ensures r is Some == tview(*old(self)).contains_key(*k),
            r is Some ==> *(r->Some_0) == tview(*old(self))[*k] && tview(*final(self)) == tview(*old(self)).insert(*k, *final(r->Some_0)),
            r is None ==> tview(*final(self)) == tview(*old(self)),
    { unimplemented!() }
    #[verifier::external_body]
    pub fn remove(&mut self, k: &u32) -> (r: Option<BTreeMap<u32, SegmentEntry>>)
        ensures tview(*final(self)) == tview(*old(self)).remove(*k)
    { unimplemented!() }
}
impl BTreeMap<u32, SegmentEntry> {
    #[verifier::external_body]
    pub fn get_mut(&mut self, k: &u32) -> (r: Option<&mut SegmentEntry>)
        ensures r is Some == lview(*old(self)).contains_key(*k),
            r is Some ==> *(r->Some_0) == lview(*old(self))[*k] && lview(*final(self)) == lview(*old(self)).insert(*k, *final(r->Some_0)),
            r is None ==> lview(*final(self)) == lview(*old(self)),
    { unimplemented!() }
    #[verifier::external_body]
    pub fn remove(&mut self, k: &u32) -> (r: Option<SegmentEntry>)
        ensures lview(*final(self)) == lview(*old(self)).remove(*k),
            r == (if lview(*old(self)).contains_key(*k) { Some(lview(*old(self))[*k]) } else { None::<SegmentEntry> }),
    { unimplemented!() }
    #[verifier::external_body]
    pub fn is_empty(&self) -> (r: bool) ensures r == (forall|k: u32| !lview(*self).contains_key(k)) { unimplemented!() }
}
pub uninterp spec fn without(uids: Seq<String>, uid: &str) -> Seq<String>;
/// E6: stands for `entry.uids.retain(|existing| existing != uid)`
#[verifier::external_body]
pub fn retain_other(uids: &mut Vec<String>, uid: &str)
    ensures final(uids)@ == without(old(uids)@, uid), final(uids)@.len() <= old(uids)@.len()
{ unimplemented!() }

impl SegmentEntry {
    /// contract of the real SegmentEntry::level (SegmentId::from(id).level()), proved for all ids by Kani unit c11_segment_ids
    #[verifier::external_body]
    pub fn level(&self) -> (r: u32) ensures r == self.id / LEVEL_SPAN { unimplemented!() }
}
/// the entry filed under (level, offset), if any
pub open spec fn slot(t: Map<u32, BTreeMap<u32, SegmentEntry>>, level: u32, offset: u32) -> Option<SegmentEntry> {
    if t.contains_key(level) && lview(t[level]).contains_key(offset) { Some(lview(t[level])[offset]) } else { None }
}
pub fn two_inserts(t: &mut SegmentIndexTree, a: SegmentEntry, b: SegmentEntry)
    requires a.id != b.id
    ensures slot(tview(final(t).by_level), a.id / LEVEL_SPAN, a.id % LEVEL_SPAN) == Some(a),
            slot(tview(final(t).by_level), b.id / LEVEL_SPAN, b.id % LEVEL_SPAN) == Some(b),
{
    proof {
        assert(!(a.id / LEVEL_SPAN == b.id / LEVEL_SPAN && a.id % LEVEL_SPAN == b.id % LEVEL_SPAN)) by {
            if a.id / LEVEL_SPAN == b.id / LEVEL_SPAN && a.id % LEVEL_SPAN == b.id % LEVEL_SPAN {
                vstd::arithmetic::div_mod::lemma_fundamental_div_mod(a.id as int, LEVEL_SPAN as int);
                vstd::arithmetic::div_mod::lemma_fundamental_div_mod(b.id as int, LEVEL_SPAN as int);
            }
        }
    }
    t.insert(a);
    t.insert(b);
}

} // verus!
fn main() {}
