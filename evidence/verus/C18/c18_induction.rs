// GENERATED on every run by tools/verus_run.py from /repo and contracts/verus/c18_induction.spec
use vstd::prelude::*;
verus! {

pub const CUSTOM_EPOCH_MILLIS: u64 = 1_609_459_200_000;
pub const TIMESTAMP_BITS: u64 = 42;
pub const SHARD_ID_BITS: u64 = 10;
pub const SEQUENCE_BITS: u64 = 12;


// ---- spec functions and lemmas from the contract file ----
pub proof fn lemma_constants()
    ensures CUSTOM_EPOCH_MILLIS == 1_609_459_200_000, TIMESTAMP_BITS == 42, SHARD_ID_BITS == 10, SEQUENCE_BITS == 12,
{
}

/// a generator state as left by next(): (last_millis, sequence), inside the 42-bit clock window
pub struct GenState { pub ms: int, pub seq: int }

pub open spec fn in_window(s: GenState) -> bool {
    &&& 1_609_459_200_000 <= s.ms < 1_609_459_200_000 + 0x400_0000_0000
    &&& 0 <= s.seq <= 0xFFF
}

pub open spec fn lex_lt(a: GenState, b: GenState) -> bool {
    a.ms < b.ms || (a.ms == b.ms && a.seq < b.seq)
}

/// arithmetic reading of the id layout (what Kani's obligation `pack_layout` pins down bit for bit)
pub open spec fn id_of(s: GenState, shard: int) -> int {
    (s.ms - 1_609_459_200_000) * 0x40_0000 + shard * 0x1000 + s.seq
}

pub proof fn lemma_pack_bits_is_arith(t: u64, shard: u64, seq: u64)
    requires t < 0x400_0000_0000, shard < 0x400, seq < 0x1000
    ensures ((t << 22) | (shard << 12) | seq) == t * 0x40_0000 + shard * 0x1000 + seq,
            (((t << 22) | (shard << 12) | seq) >> 12) & 0x3ff == shard,
{
    assert(((t << 22) | (shard << 12) | seq) == t * 0x40_0000 + shard * 0x1000 + seq) by (bit_vector)
        requires t < 0x400_0000_0000, shard < 0x400, seq < 0x1000;
    assert((((t << 22) | (shard << 12) | seq) >> 12) & 0x3ff == shard) by (bit_vector)
        requires t < 0x400_0000_0000, shard < 0x400, seq < 0x1000;
}

pub proof fn lemma_step(a: GenState, b: GenState, shard: int)
    requires in_window(a), in_window(b), lex_lt(a, b), 0 <= shard < 1024
    ensures id_of(a, shard) < id_of(b, shard)
{
    if a.ms < b.ms {
        assert((b.ms - 1_609_459_200_000) * 0x40_0000 >= (a.ms - 1_609_459_200_000) * 0x40_0000 + 0x40_0000) by (nonlinear_arith)
            requires a.ms < b.ms;
    }
}

/// histories: states[i+1] is the state after the (i+1)-th call; the per-call contract gives lex_lt between neighbours
pub open spec fn is_history(states: Seq<GenState>) -> bool {
    &&& forall|i: int| 0 <= i < states.len() ==> in_window(#[trigger] states[i])
    &&& forall|i: int| 0 <= i < states.len() - 1 ==> lex_lt(#[trigger] states[i], states[i + 1])
}

pub proof fn lemma_ids_strictly_increase(states: Seq<GenState>, shard: int, i: int, j: int)
    requires is_history(states), 0 <= shard < 1024, 0 <= i < j < states.len()
    ensures id_of(states[i], shard) < id_of(states[j], shard)
    decreases j - i
{
    if j == i + 1 {
        lemma_step(states[i], states[j], shard);
    } else {
        lemma_ids_strictly_increase(states, shard, i, j - 1);
        lemma_step(states[j - 1], states[j], shard);
    }
}

pub proof fn lemma_shards_disjoint(a: GenState, b: GenState, sa: int, sb: int)
    requires in_window(a), in_window(b), 0 <= sa < 1024, 0 <= sb < 1024, sa != sb
    ensures id_of(a, sa) != id_of(b, sb)
{
    // (id / 4096) % 1024 recovers the shard
    assert((id_of(a, sa) / 0x1000) % 0x400 == sa) by (nonlinear_arith)
        requires 0 <= a.seq <= 0xFFF, 0 <= sa < 1024, a.ms >= 1_609_459_200_000,
                 id_of(a, sa) == (a.ms - 1_609_459_200_000) * 0x40_0000 + sa * 0x1000 + a.seq;
    assert((id_of(b, sb) / 0x1000) % 0x400 == sb) by (nonlinear_arith)
        requires 0 <= b.seq <= 0xFFF, 0 <= sb < 1024, b.ms >= 1_609_459_200_000,
                 id_of(b, sb) == (b.ms - 1_609_459_200_000) * 0x40_0000 + sb * 0x1000 + b.seq;
}

} // verus!
fn main() {}
